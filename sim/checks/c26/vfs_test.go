//go:build verif

package c26

// The billy layer handed to go-git (worktree and repository storage), a thin
// recording wrapper over a simfs view, and the harness's own path resolver.

import (
	"errors"
	"fmt"
	"io/fs"
	"os"
	"path"
	"strings"
	"sync"
	"syscall"
	"unicode"

	"github.com/go-git/go-billy/v6"
	"github.com/go-git/go-git/v6/verifsim/simfs"
)

const (
	top     = "/top"
	wtRoot  = "/top/w"
	gitDir  = "/top/w/.git"
	outDir  = "/top/outside"
	modsDir = "/top/w/.git/modules"

	// bsStandIn replaces a backslash in file names on POSIX/HFS personalities,
	// where it is an ordinary character (simfs turns it into "/" everywhere).
	bsStandIn = "＼"
)

const (
	viewBound = iota // like osfs.BoundOS / os.Root: ".." clamped at the root, symlinks leaving the root refused
	viewChroot    // lexical chroot (billy helper/chroot over a plain filesystem, memfs): ".." clamped, symlinks followed
	viewRawJoin   // root + "/" + name, nothing clamped
)

var viewNames = []string{"bound", "chroot", "rawjoin"}

func mod(i, n int) int {
	if n <= 0 {
		return 0
	}
	i %= n
	if i < 0 {
		i += n
	}
	return i
}

// ---------------------------------------------------------------- name folding (mirrors simfs; classification only)

func hfsIgnorable(r rune) bool {
	switch r {
	case 0x200c, 0x200d, 0x200e, 0x200f, 0x202a, 0x202b, 0x202c, 0x202d, 0x202e,
		0x206a, 0x206b, 0x206c, 0x206d, 0x206e, 0x206f, 0xfeff:
		return true
	}
	return false
}

func stripIgnorable(s string) string {
	var b strings.Builder
	for _, r := range s {
		if !hfsIgnorable(r) {
			b.WriteRune(r)
		}
	}
	return b.String()
}

func foldNTFS(name string) string {
	n := strings.ToLower(name)
	if i := strings.IndexByte(n, ':'); i >= 0 {
		n = n[:i]
	}
	n = strings.TrimRight(n, ". ")
	if n == "git~1" {
		n = ".git"
	}
	if n == "" {
		n = strings.ToLower(name)
	}
	return n
}

func foldHFS(name string) string {
	var b strings.Builder
	for _, r := range name {
		if hfsIgnorable(r) {
			continue
		}
		b.WriteRune(unicode.ToLower(r))
	}
	if b.Len() == 0 {
		return name
	}
	return b.String()
}

func foldComp(p simfs.Personality, name string) string {
	switch p {
	case simfs.NTFS:
		return foldNTFS(name)
	case simfs.HFS:
		return foldHFS(name)
	}
	return name
}

func splitPath(p string) []string {
	var out []string
	for _, s := range strings.Split(p, "/") {
		if s != "" {
			out = append(out, s)
		}
	}
	return out
}

// under reports whether p is prefix or below it, comparing components the way
// the personality looks names up.
func under(pers simfs.Personality, p, prefix string) (inside, equal bool) {
	a, b := splitPath(p), splitPath(prefix)
	if len(a) < len(b) {
		return false, false
	}
	for i := range b {
		if foldComp(pers, a[i]) != foldComp(pers, b[i]) {
			return false, false
		}
	}
	return true, len(a) == len(b)
}

// ---------------------------------------------------------------- resolver

// resolve follows abs through the image the way the disk would (symlinks at
// every leading component, at the final one only when follow is set; ".."
// lexically), without going through the seams. It returns the resolved path
// (a missing tail is appended lexically) and the location of the first symlink
// it went through ("" if none).
func resolve(d *simfs.Disk, pers simfs.Personality, abs string, follow bool) (res, firstLink string) {
	parts := splitPath(abs)
	var cur []string
	links := 0
	for i := 0; i < len(parts); i++ {
		c := parts[i]
		if c == "." {
			continue
		}
		if c == ".." {
			if len(cur) > 0 {
				cur = cur[:len(cur)-1]
			}
			continue
		}
		nxt := "/" + strings.Join(append(append([]string{}, cur...), c), "/")
		final := i == len(parts)-1
		switch k := d.Lookup(nxt); {
		case k == "":
			rest := append(append([]string{}, cur...), parts[i:]...)
			return path.Clean("/" + strings.Join(rest, "/")), firstLink
		case k == "link" && (!final || follow):
			links++
			if links > 40 {
				return nxt, firstLink
			}
			es := d.List(nxt)
			if len(es) != 1 || es[0].Kind != "link" {
				return nxt, firstLink
			}
			if firstLink == "" {
				firstLink = nxt
			}
			t := es[0].Target
			if pers == simfs.NTFS {
				t = strings.ReplaceAll(t, "\\", "/")
			}
			if strings.HasPrefix(t, "/") {
				cur = nil
			}
			np := append(splitPath(t), parts[i+1:]...)
			parts = np
			i = -1
		default:
			cur = append(cur, c)
		}
	}
	if len(cur) == 0 {
		return "/", firstLink
	}
	return "/" + strings.Join(cur, "/"), firstLink
}

// ---------------------------------------------------------------- recording wrapper

// call is one path operation go-git issued on a wrapped filesystem.
type call struct {
	role   string // wt | storage | modstore
	method string
	name   string // as given by go-git
	name2  string
	lex    string // absolute path the name denotes on this view, before symlinks
	lex2   string
	res    string // harness-resolved path at call time
	res2   string
	link   string // first symlink traversed (absolute), "" if none
	start  int    // len(d.Log) before / after
	end    int
	err    error
	osRef  bool // refused by the bound view itself (the operating system's doing)
}

type rec struct {
	d     *simfs.Disk
	pers  simfs.Personality
	view  int
	mu    sync.Mutex // fetch helpers of a pull run beside the main goroutine
	calls []*call

	// fault: fail the nth (1-based) worktree-side call of this class. Injected
	// here, not in simfs, so that the ordinal counts only the sequential
	// worktree calls (a pull's storage operations run in several goroutines).
	fault      *simfs.Fault
	faultSeen  int
	faultFired bool
}

type injectedErr struct{ errno syscall.Errno }

func (e *injectedErr) Error() string   { return "c26: injected " + e.errno.Error() }
func (e *injectedErr) Unwrap() []error { return []error{simfs.ErrInjected, e.errno} }

func errnoOf(s string) syscall.Errno {
	switch s {
	case "ENOSPC":
		return syscall.ENOSPC
	case "EACCES":
		return syscall.EACCES
	case "EMFILE":
		return syscall.EMFILE
	case "ENOENT":
		return syscall.ENOENT
	}
	return syscall.EIO
}

// classOfMethod maps a wrapper method onto the fault classes of a plan.
func classOfMethod(m string) simfs.OpClass {
	switch m {
	case "open":
		return simfs.OpOpen
	case "openw":
		return simfs.OpCreate
	case "stat", "lstat":
		return simfs.OpStat
	case "readdir":
		return simfs.OpReadDir
	case "remove":
		return simfs.OpRemove
	case "rename":
		return simfs.OpRename
	case "mkdir":
		return simfs.OpMkdir
	case "symlink":
		return simfs.OpSymlink
	case "readlink":
		return simfs.OpReadlink
	case "chmod":
		return simfs.OpChmod
	case "write":
		return simfs.OpWrite
	case "close":
		return simfs.OpClose
	}
	return ""
}

// inject decides whether this worktree-side call is the one to fail.
func (r *rec) inject(role, method string) error {
	if r.fault == nil || r.faultFired || role != "wt" || classOfMethod(method) != r.fault.Class {
		return nil
	}
	r.faultSeen++
	if r.faultSeen < r.fault.Nth {
		return nil
	}
	r.faultFired = true
	return &injectedErr{errnoOf(r.fault.Errno)}
}

// vfs is what go-git gets. It (a) keeps a backslash an ordinary file-name
// character on POSIX/HFS, (b) in rawjoin view joins names under its base
// without clamping "..", (c) in bound view refuses any operation whose
// resolved path leaves the base (simfs's Bound flag does not cover MkdirAll
// and parent creation), (d) records every call with its lexical name.
type vfs struct {
	r     *rec
	inner *simfs.FS
	base  string
	role  string
}

var (
	_ billy.Filesystem = (*vfs)(nil)
	_ billy.Capable    = (*vfs)(nil)
)

func newVFS(r *rec, base, role string) *vfs {
	v := &vfs{r: r, base: base, role: role}
	if r.view == viewRawJoin {
		v.inner = r.d.FS("/", role)
	} else {
		v.inner = r.d.FS(base, role)
		v.inner.Bound = r.view == viewBound
	}
	return v
}

func (v *vfs) bs(name string) string {
	if v.r.pers == simfs.NTFS {
		return strings.ReplaceAll(name, "\\", "/")
	}
	return strings.ReplaceAll(name, "\\", bsStandIn)
}

func (v *vfs) unbs(name string) string {
	if v.r.pers != simfs.NTFS {
		return strings.ReplaceAll(name, bsStandIn, "\\")
	}
	return name
}

// lexical: the absolute path name denotes on this view before symlinks.
func (v *vfs) lexical(name string) string {
	n := v.bs(name)
	if v.r.view == viewRawJoin {
		return path.Clean(v.base + "/" + n)
	}
	if strings.HasPrefix(n, "/") && (n == v.base || strings.HasPrefix(n, v.base+"/")) {
		return path.Clean(n)
	}
	rel := path.Clean("/" + n)
	if rel == "/" {
		return v.base
	}
	return v.base + rel
}

// m: the name handed to the simfs view.
func (v *vfs) m(name string) string {
	if v.r.view == viewRawJoin {
		return v.lexical(name)
	}
	return v.bs(name)
}

var errEscapes = fmt.Errorf("c26 bound view: %w", simfs.ErrPathEscapes)

func (v *vfs) begin(method, name, name2 string, follow bool) (*call, error) {
	c := call{role: v.role, method: method, name: name, name2: name2, start: len(v.r.d.Log)}
	c.lex = v.lexical(name)
	c.res, c.link = resolve(v.r.d, v.r.pers, c.lex, follow)
	if name2 != "" || method == "rename" {
		c.lex2 = v.lexical(name2)
		var l2 string
		c.res2, l2 = resolve(v.r.d, v.r.pers, c.lex2, false)
		if c.link == "" {
			c.link = l2
		}
	}
	p := &c
	v.r.mu.Lock()
	v.r.calls = append(v.r.calls, p)
	ierr := v.r.inject(v.role, method)
	v.r.mu.Unlock()
	if ierr != nil {
		p.err, p.end = ierr, p.start
		return p, &os.PathError{Op: method, Path: name, Err: ierr}
	}
	if v.r.view == viewBound {
		for _, r := range []string{p.res, p.res2} {
			if r == "" {
				continue
			}
			if in, _ := under(v.r.pers, r, v.base); !in {
				p.osRef = true
				p.err = errEscapes
				p.end = p.start
				return p, &os.PathError{Op: method, Path: name, Err: errEscapes}
			}
		}
	}
	return p, nil
}

func (v *vfs) done(c *call, err error) error {
	c.end = len(v.r.d.Log)
	c.err = err
	if err != nil && errors.Is(err, simfs.ErrPathEscapes) {
		c.osRef = true
	}
	return err
}

type vfile struct {
	billy.File
	name string
	v    *vfs
}

func (f *vfile) Write(b []byte) (int, error) {
	f.v.r.mu.Lock()
	ierr := f.v.r.inject(f.v.role, "write")
	f.v.r.mu.Unlock()
	if ierr != nil {
		return 0, &os.PathError{Op: "write", Path: f.name, Err: ierr}
	}
	return f.File.Write(b)
}

func (f *vfile) Close() error {
	f.v.r.mu.Lock()
	ierr := f.v.r.inject(f.v.role, "close")
	f.v.r.mu.Unlock()
	err := f.File.Close() // the descriptor is released whatever close reports
	if ierr != nil {
		return &os.PathError{Op: "close", Path: f.name, Err: ierr}
	}
	return err
}

func (f *vfile) Name() string { return f.name }
func (f *vfile) Lock() error {
	if l, ok := f.File.(billy.Locker); ok {
		return l.Lock()
	}
	return nil
}
func (f *vfile) Unlock() error {
	if l, ok := f.File.(billy.Locker); ok {
		return l.Unlock()
	}
	return nil
}

type ventry struct {
	fs.DirEntry
	name string
}

func (e ventry) Name() string { return e.name }

func (v *vfs) relName(name string) string {
	if v.r.view == viewRawJoin {
		switch {
		case name == v.base:
			name = "."
		case strings.HasPrefix(name, v.base+"/"):
			name = name[len(v.base)+1:]
		}
	}
	return v.unbs(name)
}

func (v *vfs) Capabilities() billy.Capability { return billy.DefaultCapabilities }
func (v *vfs) Join(elem ...string) string     { return path.Join(elem...) }
func (v *vfs) Root() string                   { return v.base }

func (v *vfs) Create(n string) (billy.File, error) {
	return v.OpenFile(n, os.O_RDWR|os.O_CREATE|os.O_TRUNC, 0o666)
}
func (v *vfs) Open(n string) (billy.File, error) { return v.OpenFile(n, os.O_RDONLY, 0) }
func (v *vfs) OpenFile(n string, flag int, perm fs.FileMode) (billy.File, error) {
	method := "open"
	if flag&(os.O_CREATE|os.O_TRUNC|os.O_WRONLY|os.O_RDWR|os.O_APPEND) != 0 {
		method = "openw"
	}
	c, err := v.begin(method, n, "", !(flag&os.O_CREATE != 0 && flag&os.O_EXCL != 0))
	if err != nil {
		return nil, err
	}
	f, err := v.inner.OpenFile(v.m(n), flag, perm)
	if v.done(c, err) != nil {
		return nil, err
	}
	return &vfile{File: f, name: v.relName(f.Name()), v: v}, nil
}
func (v *vfs) Stat(n string) (fs.FileInfo, error) {
	c, err := v.begin("stat", n, "", true)
	if err != nil {
		return nil, err
	}
	fi, err := v.inner.Stat(v.m(n))
	return fi, v.done(c, err)
}
func (v *vfs) Lstat(n string) (fs.FileInfo, error) {
	c, err := v.begin("lstat", n, "", false)
	if err != nil {
		return nil, err
	}
	fi, err := v.inner.Lstat(v.m(n))
	return fi, v.done(c, err)
}
func (v *vfs) Rename(a, b string) error {
	c, err := v.begin("rename", a, b, false)
	if err != nil {
		return err
	}
	return v.done(c, v.inner.Rename(v.m(a), v.m(b)))
}
func (v *vfs) Remove(n string) error {
	c, err := v.begin("remove", n, "", false)
	if err != nil {
		return err
	}
	return v.done(c, v.inner.Remove(v.m(n)))
}
func (v *vfs) MkdirAll(n string, perm fs.FileMode) error {
	c, err := v.begin("mkdir", n, "", true)
	if err != nil {
		return err
	}
	return v.done(c, v.inner.MkdirAll(v.m(n), perm))
}
func (v *vfs) Symlink(target, link string) error {
	c, err := v.begin("symlink", link, "", false)
	if err != nil {
		return err
	}
	return v.done(c, v.inner.Symlink(target, v.m(link)))
}
func (v *vfs) Readlink(n string) (string, error) {
	c, err := v.begin("readlink", n, "", false)
	if err != nil {
		return "", err
	}
	t, err := v.inner.Readlink(v.m(n))
	return t, v.done(c, err)
}
func (v *vfs) Chmod(n string, mode fs.FileMode) error {
	c, err := v.begin("chmod", n, "", true)
	if err != nil {
		return err
	}
	return v.done(c, v.inner.Chmod(v.m(n), mode))
}
func (v *vfs) TempFile(dir, prefix string) (billy.File, error) {
	if dir == "" {
		dir = ".tmp"
	}
	c, err := v.begin("tempfile", dir, "", true)
	if err != nil {
		return nil, err
	}
	f, err := v.inner.TempFile(v.m(dir), prefix)
	if v.done(c, err) != nil {
		return nil, err
	}
	return &vfile{File: f, name: v.relName(f.Name()), v: v}, nil
}
func (v *vfs) ReadDir(n string) ([]fs.DirEntry, error) {
	c, err := v.begin("readdir", n, "", true)
	if err != nil {
		return nil, err
	}
	es, err := v.inner.ReadDir(v.m(n))
	if v.done(c, err) != nil || v.r.pers == simfs.NTFS {
		return es, err
	}
	for i, e := range es {
		if strings.Contains(e.Name(), bsStandIn) {
			es[i] = ventry{DirEntry: e, name: strings.ReplaceAll(e.Name(), bsStandIn, "\\")}
		}
	}
	return es, nil
}

// Chroot issues no disk operation; the sub-view keeps the role, except that
// the repository storage's sub-view (DotGit.Module) becomes "modstore".
func (v *vfs) Chroot(p string) (billy.Filesystem, error) {
	c, err := v.begin("chroot", p, "", true)
	if err != nil {
		return nil, err
	}
	role := v.role
	if role == "storage" {
		role = "modstore"
	}
	nv := &vfs{r: v.r, role: role, base: c.lex}
	if v.r.view == viewRawJoin {
		nv.inner = v.inner.As(role)
	} else {
		in, err := v.inner.Chroot(v.m(p))
		if v.done(c, err) != nil {
			return nil, err
		}
		nv.inner = in.(*simfs.FS).As(role)
	}
	_ = v.done(c, nil)
	return nv, nil
}
