//go:build verif

package c26

import (
	"errors"
	"fmt"
	"os"
	"runtime/debug"
	"sort"
	"strings"
	"testing"

	git "github.com/go-git/go-git/v6"
	"github.com/go-git/go-git/v6/config"
	"github.com/go-git/go-git/v6/plumbing"
	"github.com/go-git/go-git/v6/plumbing/cache"
	"github.com/go-git/go-git/v6/plumbing/client"
	"github.com/go-git/go-git/v6/plumbing/format/index"
	"github.com/go-git/go-git/v6/plumbing/object"
	"github.com/go-git/go-git/v6/plumbing/transport"
	"github.com/go-git/go-git/v6/storage/filesystem"
	"github.com/go-git/go-git/v6/storage/filesystem/dotgit"
	"github.com/go-git/go-git/v6/storage/memory"
	"github.com/go-git/go-git/v6/verifsim/core"
	"github.com/go-git/go-git/v6/verifsim/hooks"
	"github.com/go-git/go-git/v6/verifsim/simfs"
)

// ---------------------------------------------------------------- base image

var baseEnts = []Ent{
	{Name: "a.txt", Kind: kFile, Data: "base a\n"},
	{Name: "dir", Kind: kDir, Kids: []Ent{
		{Name: "c.txt", Kind: kFile, Data: "base c\n"},
		{Name: "sub", Kind: kDir, Kids: []Ent{{Name: "d.txt", Kind: kFile, Data: "base d\n"}}},
	}},
	{Name: "f", Kind: kFile, Data: "base f\n"},
	{Name: "keep", Kind: kDir, Kids: []Ent{{Name: "k.txt", Kind: kFile, Data: "base k\n"}}},
}

// nestedGitDirs: git directories of nested repositories that exist in the
// image below the worktree (old-style submodule layout / embedded clone).
var nestedGitDirs = []string{"/top/w/sub2/.git", "/top/w/deep/er/.git"}

type baseImg struct {
	disk       *simfs.Disk
	set        *objSet // base objects
	subSet     *objSet // the submodule's history
	baseCommit string
	subCommit  string
	err        string
}

var baseCache = map[simfs.Personality]*baseImg{}

func getBase(pers simfs.Personality) *baseImg {
	if b, ok := baseCache[pers]; ok {
		return b
	}
	b := &baseImg{}
	baseCache[pers] = b
	b.subSet = newObjSet()
	st := b.subSet.tree([]Ent{{Name: "s.txt", Kind: kFile, Data: "submodule file\n"}}, "", 0)
	b.subCommit = b.subSet.commit(st, nil, 1, "sub")
	b.set = newObjSet()
	bt := b.set.tree(baseEnts, b.subCommit, 0)
	b.baseCommit = b.set.commit(bt, nil, 2, "base")

	d := simfs.NewDisk()
	d.Personality = pers
	wt := d.FS(wtRoot, "setup")
	dot, err := wt.Chroot(".git")
	if err != nil {
		b.err = "setup-chroot"
		return b
	}
	sto := filesystem.NewStorage(dot, cache.NewObjectLRUDefault())
	repo, err := git.Init(sto, git.WithWorkTree(wt))
	if err != nil {
		b.err = "setup-init"
		return b
	}
	b.set.writeLoose(d, gitDir)
	if err := sto.SetReference(plumbing.NewHashReference("refs/heads/master", plumbing.NewHash(b.baseCommit))); err != nil {
		b.err = "setup-ref"
		return b
	}
	w, err := repo.Worktree()
	if err != nil {
		b.err = "setup-worktree"
		return b
	}
	if err := w.Reset(&git.ResetOptions{Mode: git.HardReset, Commit: plumbing.NewHash(b.baseCommit)}); err != nil {
		b.err = "setup-reset:" + err.Error()
		return b
	}
	if _, err := repo.CreateRemote(&config.RemoteConfig{Name: "origin", URLs: []string{"file:///remote"}}); err != nil {
		b.err = "setup-remote"
		return b
	}
	_ = sto.Close()
	wf := func(p, data string, mode os.FileMode) { _ = d.WriteFile(p, []byte(data), mode) }
	wf(gitDir+"/hooks/pre-commit", "#!/bin/sh\necho sentinel hook\n", 0o755)
	wf(gitDir+"/description", "sentinel description\n", 0o644)
	wf(gitDir+"/info/exclude", "# sentinel exclude\n", 0o644)
	wf(gitDir+"/objects/ab/sentinel", "sentinel object\n", 0o444)
	// an already cloned submodule "sub"
	wf(modsDir+"/sub/HEAD", "ref: refs/heads/master\n", 0o644)
	wf(modsDir+"/sub/config", "[core]\n\tbare = false\n\tworktree = ../../../sub\n[remote \"origin\"]\n\turl = file:///subremote\n\tfetch = +refs/heads/*:refs/remotes/origin/*\n", 0o644)
	wf(modsDir+"/sub/refs/heads/master", b.subCommit+"\n", 0o644)
	wf(modsDir+"/sub/hooks/pre-commit", "#!/bin/sh\necho sentinel module hook\n", 0o755)
	b.subSet.writeLoose(d, modsDir+"/sub")
	for _, n := range nestedGitDirs {
		wf(n+"/HEAD", "ref: refs/heads/master\n", 0o644)
		wf(n+"/config", "[core]\n\tbare = false\n", 0o644)
		wf(n+"/hooks/pre-commit", "#!/bin/sh\necho sentinel nested hook\n", 0o755)
	}
	wf("/top/w/sub2/file.txt", "untracked file of the nested repository\n", 0o644)
	wf(outDir+"/secret.txt", "sentinel secret\n", 0o600)
	wf(outDir+"/dir/c.txt", "sentinel outside c\n", 0o644)
	wf(outDir+"/dir/sub/d.txt", "sentinel outside d\n", 0o644)
	wf(outDir+"/dir/k.txt", "sentinel outside k\n", 0o644)
	wf(outDir+"/dir/x", "sentinel outside x\n", 0o644)
	wf(outDir+"/hooks/pre-commit", "#!/bin/sh\necho sentinel outside hook\n", 0o755)
	wf(outDir+"/gitmodules", "[submodule \"fromoutside\"]\n\tpath = fromoutside\n\turl = file:///subremote\n", 0o644)
	wf(outDir+"/config", "[core]\n\tsentinel = true\n", 0o644)
	wf("/secret", "root:x:0:0\n", 0o600)
	b.disk = d
	return b
}

// ---------------------------------------------------------------- environment of one run

type env struct {
	p        *Plan
	pers     simfs.Personality
	view     int
	protNTFS bool
	protHFS  bool
	d        *simfs.Disk
	r        *rec
	out      *core.Outcome
	trace    []string
	hlog     []string
	commits  []string // ids of the plan's commits
	cclass   []string // class of the most hostile path of each commit
	cdepth   []int    // depth of its .git-like component (-1 none)
	local    []bool
	planted  []string // absolute lexical locations of planted links
	treeLink map[string]bool
	areas    map[string]string
	copts    []client.Option
	subName  string
	fired    bool
}

func (e *env) logf(format string, a ...any) {
	if len(e.trace) < 400 {
		e.trace = append(e.trace, fmt.Sprintf(format, a...))
	}
}

func hasCtl(s string) bool {
	for i := 0; i < len(s); i++ {
		if s[i] < 0x20 || s[i] == 0x7f {
			return true
		}
	}
	return false
}

func isSep(r rune) bool { return r == '/' || r == '\\' }

// nameClass: the first matching class, in a fixed priority order, of a name
// go-git was given or handed down.
func nameClass(s string) string {
	if hasCtl(s) {
		return "ctl"
	}
	comps := strings.FieldsFunc(s, isSep)
	for _, c := range comps {
		if c == ".." {
			return "dotdot"
		}
	}
	for _, c := range comps {
		switch {
		case c == ".git":
			return "dotgit"
		case strings.EqualFold(c, ".git"):
			return "dotgit-case"
		case strings.EqualFold(c, "git~1"):
			return "dotgit-8.3"
		}
	}
	for _, c := range comps {
		if foldNTFS(c) == ".git" {
			return "dotgit-ntfs"
		}
	}
	for _, c := range comps {
		if foldHFS(c) == ".git" {
			return "dotgit-hfs"
		}
	}
	switch {
	case strings.Contains(s, "\\"):
		return "backslash"
	case strings.HasPrefix(s, "/") || (len(s) >= 2 && s[1] == ':'):
		return "abs"
	}
	for _, c := range comps {
		if c == "." {
			return "dot"
		}
	}
	return "plain"
}

func dotgitDepth(s string) int {
	for i, c := range strings.FieldsFunc(s, isSep) {
		if foldNTFS(c) == ".git" || foldHFS(c) == ".git" {
			return i
		}
	}
	return -1
}

var classRank = map[string]int{"plain": 0, "dot": 1, "abs": 2, "backslash": 3, "ctl": 4, "symlink": 5, "gitmodules": 5, "dotdot": 6, "dotgit-hfs": 7, "dotgit-ntfs": 7, "dotgit-8.3": 7, "dotgit-case": 7, "dotgit": 7}

// commitClass walks a plan tree and returns the class of its most hostile path.
func commitClass(ents []Ent) (cls string, depth int) {
	cls, depth = "plain", -1
	var walk func(prefix string, es []Ent, lvl int)
	walk = func(prefix string, es []Ent, lvl int) {
		if lvl > 6 {
			return
		}
		for _, e := range es {
			full := e.Name
			if prefix != "" {
				full = prefix + "/" + e.Name
			}
			c := nameClass(full)
			if c == "plain" && e.Kind == kLink {
				c = "symlink"
			}
			if c == "plain" && strings.HasPrefix(strings.ToLower(e.Name), ".gitmod") {
				c = "gitmodules"
			}
			if classRank[c] > classRank[cls] {
				cls = c
			}
			if dd := dotgitDepth(full); dd > depth {
				depth = dd
			}
			if e.Kind == kDir {
				walk(full, e.Kids, lvl+1)
			}
		}
	}
	walk("", ents, 0)
	return cls, depth
}

func (e *env) excusable(class string) bool {
	switch class {
	case "dotgit-ntfs", "backslash":
		return e.pers == simfs.NTFS && !e.protNTFS
	case "dotgit-hfs":
		return e.pers == simfs.HFS && !e.protHFS
	}
	return false
}

func (e *env) protLabel() string {
	switch e.pers {
	case simfs.NTFS:
		if e.protNTFS {
			return "ntfs-on"
		}
		return "ntfs-off"
	case simfs.HFS:
		if e.protHFS {
			return "hfs-on"
		}
		return "hfs-off"
	}
	return "n/a"
}

// area classifies a resolved absolute path.
func (e *env) area(p string) string {
	if a, ok := e.areas[p]; ok {
		return a
	}
	a := e.area0(p)
	e.areas[p] = a
	return a
}

func (e *env) area0(p string) string {
	in, eq := under(e.pers, p, wtRoot)
	if !in {
		return "outside"
	}
	if eq {
		return "wt"
	}
	if in, eq := under(e.pers, p, gitDir); in {
		if eq {
			return "dotgit-root"
		}
		if in, eq := under(e.pers, p, modsDir); in && !eq {
			if len(splitPath(p)) > len(splitPath(modsDir))+1 {
				return "submodule-gitdir"
			}
		}
		return "dotgit"
	}
	for _, n := range nestedGitDirs {
		if in, eq := under(e.pers, p, n); in {
			if eq {
				return "nested-root"
			}
			return "submodule-gitdir"
		}
	}
	return "wt"
}

func severity(kind string) int {
	switch kind {
	case "stat":
		return 1
	case "read":
		return 2
	case "sentinel-changed":
		return 0
	}
	return 3
}

func kindOf(op *simfs.Op) string {
	switch op.Class {
	case simfs.OpOpen:
		if strings.HasPrefix(op.Detail, "RD") {
			return "read"
		}
		return "write"
	case simfs.OpCreate:
		return "create"
	case simfs.OpStat, simfs.OpReadlink:
		return "stat" // existence / type / size of the place reached, not its content
	case simfs.OpRead, simfs.OpReadDir:
		return "read"
	case simfs.OpWrite, simfs.OpTruncate:
		return "write"
	case simfs.OpRename:
		return "rename"
	case simfs.OpRemove:
		return "remove"
	case simfs.OpMkdir:
		return "mkdir"
	case simfs.OpSymlink:
		return "symlink"
	case simfs.OpChmod:
		return "chmod"
	}
	return ""
}

func errKind(err error) string {
	switch {
	case err == nil:
		return "ok"
	case simfs.IsInjected(err):
		return "injected"
	case errors.Is(err, simfs.ErrPathEscapes):
		return "os-refused"
	case errors.Is(err, git.ErrGitModulesSymlink):
		return "gitmodules-symlink"
	case errors.Is(err, dotgit.ErrModuleNameEscape):
		return "module-name-escape"
	case errors.Is(err, git.ErrUnstagedChanges), errors.Is(err, git.ErrLocalChanges):
		return "unstaged"
	case errors.Is(err, git.NoErrAlreadyUpToDate):
		return "up-to-date"
	case errors.Is(err, git.ErrNonFastForwardUpdate):
		return "non-ff"
	case errors.Is(err, index.ErrEntryNotFound):
		return "not-in-index"
	case errors.Is(err, git.ErrDestinationExists):
		return "dest-exists"
	case errors.Is(err, git.ErrGlobNoMatches):
		return "no-match"
	case errors.Is(err, plumbing.ErrReferenceNotFound), errors.Is(err, plumbing.ErrObjectNotFound):
		return "not-found"
	case errors.Is(err, git.ErrSubmoduleAlreadyInitialized):
		return "sub-already-init"
	}
	s := err.Error()
	switch {
	case strings.Contains(s, "is a symlink"):
		return "leading-symlink"
	case strings.Contains(s, "invalid path"):
		return "invalid-path"
	case strings.Contains(s, "suspicious submodule"):
		return "bad-submodule-name"
	case errors.Is(err, os.ErrNotExist):
		return "ENOENT"
	case errors.Is(err, os.ErrExist):
		return "EEXIST"
	}
	return "other"
}

// ---------------------------------------------------------------- sentinels

type snap map[string]string

// snapshot: everything outside the worktree, inside .git and inside the
// nested git directories (kind, exec bit, bytes / link target).
func (e *env) snapshot() snap {
	s := snap{}
	for _, en := range e.d.List("/") {
		a := e.area(en.Path)
		if a == "wt" || a == "nested-root" {
			continue
		}
		v := en.Kind
		switch en.Kind {
		case "file":
			v += fmt.Sprintf(":%v:%s", en.Mode&0o100 != 0, core.HashStrings([]string{string(en.Data)}))
		case "link":
			v += ":" + en.Target
		}
		s[en.Path] = v
	}
	return s
}

func related(a, b string) bool {
	return a == b || strings.HasPrefix(a, b+"/") || strings.HasPrefix(b, a+"/")
}

// ---------------------------------------------------------------- judging one step

type verdictRec struct {
	sig, msg string
}

func (e *env) classOfCall(c *call, badRes string) string {
	name := c.name
	if c.name2 != "" && badRes == c.res2 && badRes != c.res {
		name = c.name2
	}
	cls := nameClass(name)
	if c.link == "" || (cls == "backslash" && e.pers == simfs.NTFS) {
		return cls
	}
	// a symlink was traversed: it is the cause unless the name by itself
	// already denotes the forbidden place
	lex := c.lex
	if name == c.name2 && c.name2 != "" {
		lex = c.lex2
	}
	if a := e.area(lex); a != "wt" && a != "dotgit-root" && a != "nested-root" && c.role == "wt" {
		return cls
	}
	if c.role != "wt" && classRank[cls] >= classRank["backslash"] {
		return cls
	}
	origin := "tree"
	for _, pl := range e.planted {
		if _, eq := under(e.pers, c.link, pl); eq {
			origin = "planted"
		}
	}
	final := ""
	if _, eq := under(e.pers, c.link, c.lex); eq {
		final = ":final"
		// the well-known dot files git itself reads from the worktree
		comps := strings.FieldsFunc(name, isSep)
		if len(comps) > 0 && (c.method == "open" || c.method == "openw") {
			switch b := foldHFS(foldNTFS(comps[len(comps)-1])); b {
			case ".gitignore", ".gitmodules", ".gitattributes":
				return b[1:] + "-is-" + origin + "-symlink"
			case ".git":
				return "gitfile-is-" + origin + "-symlink"
			}
		}
	}
	return "via-" + origin + "-symlink" + final
}

// judge inspects everything the step did. It returns the first violation.
//
// restricted: the step walked a Go map and stopped at the first failing path
// (Worktree.doAddDirectory), so which paths it handled before that is not a
// function of the plan. Only what precedes the map walk is judged then: the
// worktree scan and the glob expansion, recognisable by their calls (Stat is
// used by util.Glob alone; ReadDir by the scan, the glob and nothing inside
// the walk).
func (e *env) judge(opLabel string, logStart, callStart int, pre snap, stepErr error, restricted bool) *verdictRec {
	log := e.d.Log
	if logStart > len(log) {
		logStart = len(log)
	}
	calls := e.r.calls[callStart:]
	// attribute disk operations to calls
	owner := make([]*call, len(log)-logStart)
	opened := map[string]*call{}
	for _, c := range calls {
		for k := c.start; k < c.end && k < len(log); k++ {
			if k >= logStart && log[k].Actor == c.role {
				owner[k-logStart] = c
				if log[k].Class == simfs.OpOpen || log[k].Class == simfs.OpCreate {
					opened[log[k].Path] = c
				}
			}
		}
	}
	var first *verdictRec
	storageMut := []string{}
	touched := map[string]bool{}
	unjudged := false
	firstSev := 0
	fail := func(kind, where, cls, format string, a ...any) {
		msg := fmt.Sprintf(format, a...)
		if e.excusable(cls) {
			e.out.Probe("excused:" + cls + ":" + e.pers.String())
			e.out.Probe("excused-escape")
			e.logf("  excused (%s protection off): %s", e.pers, msg)
			unjudged = true
			return
		}
		if cls == "backslash" {
			// A name whose only peculiarity is a backslash reaches a forbidden
			// place on the ntfs personality solely because the disk splits at
			// it while go-git's component logic (filepath.Dir, built for linux
			// here) does not: a combination no real system has (see package doc).
			e.out.Probe("not-judged:backslash-only-name")
			e.logf("  not judged (backslash separator vs linux build): %s", msg)
			unjudged = true
			return
		}
		// the gravest kind of the step is reported: mutation > content read > stat
		if first == nil || severity(kind) > firstSev {
			firstSev = severity(kind)
			pers, prot := e.pers.String(), e.protLabel()
			if strings.Contains(cls, "symlink") {
				// reached through a symlink: personality and protection settings play no part
				pers, prot = "any", "-"
			}
			op := opLabel
			if strings.HasPrefix(cls, "gitignore-is-") || strings.HasPrefix(cls, "gitmodules-is-") {
				// read by the worktree scan (status) that nearly every operation starts with
				op = "worktree-scan"
			}
			first = &verdictRec{sig: fmt.Sprintf("C26|%s|%s|%s|%s|%s|%s", op, kind, where, cls, pers, prot), msg: msg}
		}
	}
	wtMutDisguise := map[string]bool{}
	for k := logStart; k < len(log); k++ {
		op := &log[k]
		kind := kindOf(op)
		if op.Injected {
			e.fired = true
			continue
		}
		if kind == "" {
			continue
		}
		c := owner[k-logStart]
		if c == nil {
			c = opened[op.Path]
		}
		if restricted && (c == nil || (c.method != "stat" && c.method != "readdir")) {
			continue
		}
		if strings.Contains(op.Err, "path escapes") || (c != nil && c.osRef) {
			e.out.Probe("os-bound-refused")
			continue
		}
		for _, pth := range []string{op.Path, op.Path2} {
			if pth == "" {
				continue
			}
			a := e.area(pth)
			cls := "handle"
			if c != nil {
				cls = e.classOfCall(c, pth)
			}
			given := "?"
			if c != nil {
				given = fmt.Sprintf("%s(%q)", c.method, c.name)
				if c.name2 != "" {
					given = fmt.Sprintf("%s(%q,%q)", c.method, c.name, c.name2)
				}
			}
			switch op.Actor {
			case "wt":
				touched["wt:"+a] = true
				switch a {
				case "wt":
					// a disguised name that reached the disk and did NOT alias .git there
					if c != nil && c.link == "" {
						if nc := nameClass(c.name); nc == "dotgit-ntfs" || nc == "dotgit-hfs" {
							wtMutDisguise[nc] = true
						}
					}
				case "dotgit-root", "nested-root":
					// the directory entry itself: listing/stat-ing it, or a failed attempt
					// on it (rmdir of a non-empty directory), is not "inside"
					if op.Mutating && op.Err == "" {
						where := "dotgit"
						if a == "nested-root" {
							where = "submodule-gitdir"
						}
						fail(kind, where, cls, "%s: worktree filesystem call %s: disk op %s replaces/removes the git directory itself", opLabel, given, op.String())
					}
				case "outside":
					fail(kind, "outside@"+viewNames[e.view], cls, "%s: worktree filesystem call %s reached outside the worktree: disk op %s", opLabel, given, op.String())
				default:
					fail(kind, a, cls, "%s: worktree filesystem call %s reached into a git directory: disk op %s", opLabel, given, op.String())
				}
			case "storage":
				touched["storage:"+a] = true
				if op.Mutating {
					storageMut = append(storageMut, pth)
				}
				if a == "outside" {
					fail(kind, "storage->outside@"+viewNames[e.view], cls, "%s: repository storage call %s left .git: disk op %s", opLabel, given, op.String())
				} else if a == "wt" || a == "nested-root" {
					e.out.Probe("storage-op-in-worktree")
				} else if a == "submodule-gitdir" {
					if in, _ := under(e.pers, pth, modsDir); !in {
						fail(kind, "storage->submodule-gitdir", cls, "%s: repository storage call %s reached a nested git directory: disk op %s", opLabel, given, op.String())
					}
				}
			case "modstore":
				touched["modstore:"+a] = true
				if op.Mutating {
					storageMut = append(storageMut, pth)
				}
				in, eq := under(e.pers, pth, modsDir)
				switch {
				case in && !eq:
				case a == "outside":
					fail(kind, "module-storage->outside@"+viewNames[e.view], cls, "%s: submodule storage call %s left .git/modules: disk op %s", opLabel, given, op.String())
				case a == "dotgit" || a == "dotgit-root":
					if !(eq && !op.Mutating) && !(a == "dotgit-root" && !op.Mutating) {
						fail(kind, "module-storage->dotgit", cls, "%s: submodule storage call %s left .git/modules for the repository's own metadata: disk op %s", opLabel, given, op.String())
					}
				case a == "submodule-gitdir":
					fail(kind, "module-storage->submodule-gitdir", cls, "%s: submodule storage call %s reached a nested git directory: disk op %s", opLabel, given, op.String())
				default:
					e.out.Probe("module-storage-in-worktree")
				}
			}
		}
	}
	// MkdirAll is logged by the disk with its lexical path: judge the harness-resolved one
	for _, c := range calls {
		if restricted {
			break
		}
		if c.role != "wt" || c.method != "mkdir" || c.osRef || simfs.IsInjected(c.err) {
			continue
		}
		a := e.area(c.res)
		switch a {
		case "wt", "dotgit-root", "nested-root":
		case "outside":
			fail("mkdir", "outside@"+viewNames[e.view], e.classOfCall(c, c.res), "%s: worktree filesystem call mkdirall(%q) resolves to %s outside the worktree", opLabel, c.name, c.res)
		default:
			fail("mkdir", a, e.classOfCall(c, c.res), "%s: worktree filesystem call mkdirall(%q) resolves to %s inside a git directory", opLabel, c.name, c.res)
		}
	}
	for nc := range wtMutDisguise {
		e.out.Probe("disguise-harmless:" + nc + ":" + e.pers.String())
	}
	// sentinels
	post := e.snapshot()
	var diffs []string
	for p, v := range pre {
		if post[p] != v {
			diffs = append(diffs, p)
		}
	}
	for p := range post {
		if _, ok := pre[p]; !ok {
			diffs = append(diffs, p)
		}
	}
	sort.Strings(diffs)
	if restricted {
		diffs = nil
	}
	if unjudged && len(diffs) > 0 {
		// an excused / unjudged escape of this step may have left its mark
		e.out.Probe("sentinel-diff-after-excused-escape")
		diffs = nil
	}
	for _, p := range diffs {
		a := e.area(p)
		explained := false
		if a != "outside" {
			for _, m := range storageMut {
				if related(p, m) {
					explained = true
					break
				}
			}
		}
		if explained {
			continue
		}
		where := a
		if a == "outside" {
			where = "outside@" + viewNames[e.view]
		}
		if first == nil {
			e.out.Probe("sentinel-diff-without-op-verdict")
		}
		fail("sentinel-changed", where, "unattributed", "%s: %s changed (%q -> %q) and no repository-storage operation accounts for it", opLabel, p, pre[p], post[p])
		break
	}
	if os.Getenv("VERIF_C26_CALLS") != "" {
		for _, c := range calls {
			e.logf("    %s %s(%q %q) -> %s [%v]", c.role, c.method, c.name, c.name2, c.res, c.err)
		}
	}
	tl := make([]string, 0, len(touched))
	for t := range touched {
		tl = append(tl, t)
	}
	sort.Strings(tl)
	e.logf("  touched=%v wt-calls=%d", tl, len(calls))
	return first
}

// ---------------------------------------------------------------- setup of one run

func mergeEnts(c Commit) []Ent {
	if c.NoBase {
		return c.Ents
	}
	var out []Ent
	for _, b := range baseEnts {
		replaced := false
		for _, e := range c.Ents {
			if e.Name == b.Name {
				replaced = true
			}
		}
		if !replaced || c.Dup {
			out = append(out, b)
		}
	}
	return append(out, c.Ents...)
}

func optBool(v int) (set, val bool) {
	switch mod(v, 3) {
	case 1:
		return true, true
	case 2:
		return true, false
	}
	return false, false
}

func appendFile(d *simfs.Disk, p, s string) {
	b, _ := d.ReadFile(p)
	_ = d.WriteFile(p, append(b, []byte(s)...), 0o644)
}

func stepLabel(s Step) string {
	switch s.Op {
	case "checkout":
		if s.Force {
			return "checkout-force"
		}
		return "checkout"
	case "reset":
		return "reset-" + []string{"hard", "mixed", "merge", "keep"}[mod(s.Mode, 4)]
	case "cherry":
		return "cherry-pick"
	case "addall":
		return "add-all"
	case "addglob":
		return "add-glob"
	case "rm":
		return "remove"
	case "rmglob":
		return "remove-glob"
	case "mv":
		return "move"
	case "subinit":
		return "submodule-init"
	case "subupdate":
		return "submodule-update"
	case "pull", "restore", "clean", "add":
		return s.Op
	}
	return "checkout"
}

func pathAt(s Step, i int, def string) string {
	if i < len(s.Paths) {
		return s.Paths[i]
	}
	return def
}

func run(t *testing.T, p *Plan, withFault bool) (out core.Outcome) {
	hooks.Deterministic(true)
	pers := simfs.Personality(mod(p.Pers, 3))
	b := getBase(pers)
	if b.err != "" {
		out.Inconclusive = b.err
		return out
	}
	e := &env{p: p, pers: pers, view: mod(p.View, 3), out: &out, treeLink: map[string]bool{}, areas: map[string]string{}}
	e.d = b.disk.Clone()
	d := e.d
	defer func() {
		out.Trace = e.trace
		out.LogHash = core.HashStrings(e.hlog)
		out.Steps = d.OpCount()
	}()
	// protection settings: unset = platform default (NTFS on everywhere, HFS on only on darwin)
	e.protNTFS, e.protHFS = true, false
	cfgAdd := ""
	if set, v := optBool(p.NTFS); set {
		e.protNTFS = v
		cfgAdd += fmt.Sprintf("\tprotectNTFS = %v\n", v)
	}
	if set, v := optBool(p.HFS); set {
		e.protHFS = v
		cfgAdd += fmt.Sprintf("\tprotectHFS = %v\n", v)
	}
	if cfgAdd != "" {
		appendFile(d, gitDir+"/config", "[core]\n"+cfgAdd)
	}
	if p.SubPre {
		appendFile(d, gitDir+"/config", "[submodule \"sub\"]\n\turl = file:///subremote\n")
		_ = d.WriteFile(wtRoot+"/sub/.git", []byte("gitdir: ../.git/modules/sub\n"), 0o644)
		_ = d.WriteFile(wtRoot+"/sub/s.txt", []byte("submodule file\n"), 0o644)
	}
	// the plan's commits
	commits := p.Commits
	if len(commits) > 4 {
		commits = commits[:4]
	}
	pullOnly := make([]bool, len(commits))
	for k := range pullOnly {
		pullOnly[k] = !p.PullLocal
	}
	steps := p.Steps
	if len(steps) > 6 {
		steps = steps[:6]
	}
	for _, s := range steps {
		if len(commits) > 0 && s.Op != "pull" {
			pullOnly[mod(s.Commit, len(commits))] = false
		}
	}
	origin := memory.NewStorage()
	subRemote := memory.NewStorage()
	if !b.set.toMemory(origin) || !b.subSet.toMemory(subRemote) || !b.subSet.toMemory(origin) {
		out.Inconclusive = "setup-remote-objects"
		return out
	}
	_ = subRemote.SetReference(plumbing.NewSymbolicReference(plumbing.HEAD, "refs/heads/master"))
	_ = subRemote.SetReference(plumbing.NewHashReference("refs/heads/master", plumbing.NewHash(b.subCommit)))
	_ = origin.SetReference(plumbing.NewSymbolicReference(plumbing.HEAD, "refs/heads/master"))
	_ = origin.SetReference(plumbing.NewHashReference("refs/heads/master", plumbing.NewHash(b.baseCommit)))
	prev := b.baseCommit
	for k, c := range commits {
		set := newObjSet()
		tr := set.tree(mergeEnts(c), b.subCommit, 0)
		parent := b.baseCommit
		if c.OnPrev {
			parent = prev
		}
		id := set.commit(tr, []string{parent}, 10+k, fmt.Sprintf("plan commit %d", k))
		prev = id
		e.commits = append(e.commits, id)
		cls, depth := commitClass(c.Ents)
		e.cclass = append(e.cclass, cls)
		e.cdepth = append(e.cdepth, depth)
		e.local = append(e.local, !pullOnly[k])
		if !set.toMemory(origin) {
			out.Inconclusive = "setup-remote-objects"
			return out
		}
		_ = origin.SetReference(plumbing.NewHashReference(plumbing.ReferenceName(fmt.Sprintf("refs/heads/m%d", k)), plumbing.NewHash(id)))
		if !pullOnly[k] {
			set.writeLoose(d, gitDir)
			_ = d.WriteFile(fmt.Sprintf("%s/refs/heads/m%d", gitDir, k), []byte(id+"\n"), 0o644)
		}
		for _, en := range c.Ents {
			if strings.Contains(strings.ToLower(en.Name), "gitmod") || en.Name == "real-modules" {
				if i := strings.Index(en.Data, "[submodule \""); i >= 0 {
					rest := en.Data[i+len("[submodule \""):]
					if j := strings.Index(rest, "\"]\n"); j >= 0 {
						e.subName = strings.NewReplacer("\\\\", "\\", "\\\"", "\"").Replace(rest[:j])
					}
				}
			}
		}
	}
	e.copts = []client.Option{client.WithLoader(transport.MapLoader{"/remote": origin, "/subremote": subRemote, "/evilsub": subRemote})}
	// what the user planted
	for i, l := range p.Planted {
		if i >= 3 {
			break
		}
		at := strings.Trim(l.At, "/")
		if at == "" || l.Target == "" || strings.ContainsAny(at, "\\\x00") || hasCtl(at) || nameClass(at) == "dotdot" {
			continue
		}
		abs := wtRoot + "/" + at
		if res, _ := resolve(d, pers, abs, false); func() bool { in, _ := under(pers, res, wtRoot); a := e.area(res); return !in || a != "wt" }() {
			continue // the user plants inside the worktree only
		}
		d.RemoveAllDirect(abs)
		if err := d.PlantSymlink(l.Target, abs); err != nil {
			continue
		}
		e.planted = append(e.planted, abs)
		out.Probe("planted-link")
		if strings.HasSuffix(at, "/.gitignore") && i%2 == 0 {
			// a regular .gitignore at the root next to a symlinked one further down: a guard that inspects the
			// wrong one of the two (the root's, for a nested file) is only wrong when the root's exists
			if d.Lookup(wtRoot+"/.gitignore") == "" {
				_ = d.WriteFile(wtRoot+"/.gitignore", []byte("*.tmp\n"), 0o644)
				out.Probe("regular-root-gitignore-next-to-nested-symlinked-one")
			}
		}
	}

	e.r = &rec{d: d, pers: pers, view: e.view}
	wtfs := newVFS(e.r, wtRoot, "wt")
	stfs := newVFS(e.r, gitDir, "storage")
	sto := filesystem.NewStorage(stfs, cache.NewObjectLRUDefault())
	defer func() { _ = sto.Close() }()
	repo, err := git.Open(sto, wtfs)
	if err != nil {
		out.Inconclusive = "setup-open"
		return out
	}
	d.ResetCounters()
	d.Record = true
	e.r.calls = nil
	if os.Getenv("VERIF_C26_STACK") != "" { // debugging aid: who issues an operation that leaves the allowed area
		d.Footprint = func(op *simfs.Op) string {
			if op.Actor == "wt" {
				if a := e.area(op.Path); a != "wt" && a != "dotgit-root" && a != "nested-root" {
					fmt.Fprintf(os.Stderr, "OP %s\n%s\n", op.String(), debug.Stack())
				}
			}
			return ""
		}
	}

	out.Probe("pers:" + pers.String())
	out.Probe("view:" + viewNames[e.view])
	out.Probe("protect:" + e.protLabel())
	hostile := len(e.planted) > 0
	for _, c := range e.cclass {
		hostile = hostile || c != "plain"
	}
	for _, s := range steps {
		for _, pa := range s.Paths {
			hostile = hostile || nameClass(pa) != "plain"
		}
	}
	out.NonTrivial = hostile
	e.logf("personality %s, view %s, protectNTFS=%v protectHFS=%v, %d commit(s) %v, planted %v, sub-pre=%v", pers, viewNames[e.view], e.protNTFS, e.protHFS, len(commits), e.cclass, e.planted, p.SubPre)

	stateUnstable := false
	for i, s := range steps {
		label := stepLabel(s)
		k := 0
		if len(commits) > 0 {
			k = mod(s.Commit, len(commits))
		}
		wt, err := repo.Worktree()
		if err != nil {
			out.Inconclusive = "worktree"
			return out
		}
		pre := e.snapshot()
		// links present before the step, for the swap / cleared probes
		type lk struct {
			abs     string
			planted bool
		}
		var linksBefore []lk
		for _, en := range d.List(wtRoot) {
			if en.Kind == "link" && e.area(en.Path) == "wt" {
				pl := false
				for _, x := range e.planted {
					if _, eq := under(pers, en.Path, x); eq {
						pl = true
					}
				}
				linksBefore = append(linksBefore, lk{en.Path, pl})
			}
		}
		logStart, callStart := len(d.Log), len(e.r.calls)
		faulting := withFault && p.Fault != nil && mod(p.FaultStep, len(steps)) == i
		if faulting {
			f := *p.Fault
			if f.Nth < 1 {
				f.Nth = 1
			}
			e.r.fault, e.r.faultSeen, e.r.faultFired = &f, 0, false
		}
		mapOrdered := false
		var serr error
		panicked := ""
		func() {
			defer func() {
				if r := recover(); r != nil {
					panicked = fmt.Sprint(r)
				}
			}()
			if len(commits) == 0 && (s.Op == "checkout" || s.Op == "reset" || s.Op == "pull" || s.Op == "cherry" || !knownOp(s.Op)) {
				serr = wt.Checkout(&git.CheckoutOptions{Branch: "refs/heads/master", Force: s.Force})
				return
			}
			switch s.Op {
			default:
				fallthrough
			case "checkout":
				o := &git.CheckoutOptions{Force: s.Force}
				if s.ByHash {
					o.Hash = plumbing.NewHash(e.commits[k])
				} else {
					o.Branch = plumbing.ReferenceName(fmt.Sprintf("refs/heads/m%d", k))
				}
				serr = wt.Checkout(o)
			case "reset":
				m := []git.ResetMode{git.HardReset, git.MixedReset, git.MergeReset, git.KeepReset}[mod(s.Mode, 4)]
				serr = wt.Reset(&git.ResetOptions{Mode: m, Commit: plumbing.NewHash(e.commits[k])})
			case "pull":
				o := &git.PullOptions{RemoteName: "origin", ReferenceName: plumbing.ReferenceName(fmt.Sprintf("refs/heads/m%d", k)), ClientOptions: e.copts}
				if s.Flag {
					o.RecurseSubmodules = git.DefaultSubmoduleRecursionDepth
				}
				serr = wt.Pull(o)
			case "cherry":
				co, err := repo.CommitObject(plumbing.NewHash(e.commits[k]))
				if err != nil {
					serr = err
					return
				}
				sig := &object.Signature{Name: "Sim", Email: "sim@example.com", When: d.Now()}
				strat := git.TheirsMergeStrategy
				if mod(s.Mode, 2) == 1 {
					strat = git.OursMergeStrategy
				}
				serr = wt.CherryPick(&git.CommitOptions{Author: sig, Committer: sig, AllowEmptyCommits: true}, strat, co)
			case "restore":
				serr = wt.Restore(&git.RestoreOptions{Staged: true, Worktree: mod(s.Mode, 2) == 0, Files: s.Paths})
			case "clean":
				serr = wt.Clean(&git.CleanOptions{Dir: s.Flag})
			case "add":
				// a directory is added by ranging over the Status map (Go map order)
				mapOrdered = d.Lookup(wtfs.lexical(pathAt(s, 0, "a.txt"))) == "dir"
				serr = wt.AddWithOptions(&git.AddOptions{Path: pathAt(s, 0, "a.txt"), SkipStatus: s.Flag})
			case "addall":
				mapOrdered = true
				serr = wt.AddWithOptions(&git.AddOptions{All: true})
			case "addglob":
				mapOrdered = true
				serr = wt.AddGlob(pathAt(s, 0, "*"))
			case "rm":
				_, serr = wt.Remove(pathAt(s, 0, "a.txt"))
			case "rmglob":
				serr = wt.RemoveGlob(pathAt(s, 0, "*"))
			case "mv":
				_, serr = wt.Move(pathAt(s, 0, "a.txt"), pathAt(s, 1, "moved.txt"))
			case "subinit":
				subs, err := wt.Submodules()
				if err != nil {
					serr = err
					return
				}
				out.ProbeN("submodules-listed", len(subs))
				serr = subs.Init()
			case "subupdate":
				subs, err := wt.Submodules()
				if err != nil {
					serr = err
					return
				}
				out.ProbeN("submodules-listed", len(subs))
				serr = subs.Update(&git.SubmoduleUpdateOptions{Init: true, NoFetch: s.Flag, ClientOptions: e.copts})
			}
		}()
		firedNow := false
		if faulting {
			e.r.fault = nil
			firedNow = e.r.faultFired
			e.fired = e.fired || firedNow
		}
		ek := errKind(serr)
		if panicked != "" {
			ek = "panic"
			out.Probe("panic:" + label)
			e.logf("step %d %s PANIC %s", i+1, label, panicked)
		}
		e.logf("step %d %s commit=%d(%s) paths=%q -> %s (%v)", i+1, label, k, classAt(e.cclass, k), s.Paths, ek, serr)
		out.Probe("op:" + label)
		out.Probe("result:" + s.Op + ":" + ek)
		// A step that may have walked a Go map (Worktree.doAddDirectory ranges over
		// the Status map) and stopped at the first path that failed: which paths
		// it touched before that depends on the map's iteration order, which no
		// plan controls. Only the part before the walk is judged, and the run ends.
		aborted := mapOrdered && serr != nil
		if aborted {
			out.Probe("partly-judged:map-ordered-step-aborted")
			stateUnstable = true // which blobs reached the object store before the abort follows map order too
		}
		v := e.judge(label, logStart, callStart, pre, serr, aborted)
		if firedNow {
			if out.Faults == nil {
				out.Faults = map[string]int{}
			}
			out.Faults[string(p.Fault.Class)+":"+p.Fault.Errno]++
			out.Probe("fault-fired")
		}
		// reach probes
		treeOp := s.Op == "checkout" || s.Op == "reset" || s.Op == "pull" || s.Op == "cherry"
		if treeOp && len(commits) > 0 {
			cls := e.cclass[k]
			if serr != nil && (ek == "invalid-path" || ek == "gitmodules-symlink") {
				out.Probe("refused:" + cls)
				if strings.HasPrefix(cls, "dotgit-") {
					out.Probe("refused:dotgit-disguise")
				}
			}
			if e.cdepth[k] >= 2 {
				out.Probe("nested-dotgit-depth>=2:exercised")
				if serr != nil && ek == "invalid-path" {
					out.Probe("nested-dotgit-depth>=2:refused")
				}
			}
		}
		for _, l := range linksBefore {
			now := d.Lookup(l.abs)
			if serr == nil && now == "dir" && v == nil {
				if l.planted {
					out.Probe("planted-symlink-cleared-then-dir-written")
				} else {
					out.Probe("swap:tree-symlink-materialised-then-dir-written")
				}
			}
			if serr == nil && now == "file" && v == nil {
				out.Probe("final-symlink-replaced-by-file")
			}
		}
		if ek == "leading-symlink" {
			out.Probe("refused-through-symlink:" + s.Op)
			if len(e.planted) > 0 && (s.Op == "add" || s.Op == "rm" || s.Op == "mv") {
				out.Probe("refused-through-planted-symlink:add-rm-mv")
			}
		}
		if (s.Op == "subupdate" || s.Op == "subinit") && e.subName != "" && nameClass(e.subName) != "plain" {
			mod := false
			for _, c := range e.r.calls[callStart:] {
				mod = mod || c.role == "modstore"
			}
			if !mod && v == nil {
				out.Probe("submodule-traversal-name-refused")
			}
		}
		if s.Op == "subupdate" && serr == nil {
			out.Probe("submodule-update-ok")
		}
		if s.Op == "subupdate" || s.Op == "pull" {
			for _, c := range e.r.calls[callStart:] {
				if c.role == "modstore" && c.method == "rename" && c.err == nil {
					out.Probe("submodule-cloned") // a pack arrived in .git/modules/<name>
					break
				}
			}
		}
		// the event log: what was asked, how it ended, what it violated
		h := fmt.Sprintf("%d|%s|%v", i, label, serr == nil)
		if !mapOrdered && !faulting {
			h += "|" + ek
		}
		if v != nil {
			h += "|" + v.sig
		}
		e.hlog = append(e.hlog, h)
		if v != nil {
			sig := v.sig
			if e.fired {
				sig += "|after-fault"
			}
			out.Fail(sig, "%s [personality %s, view %s, protectNTFS=%v, protectHFS=%v, step result: %s]", v.msg, pers, viewNames[e.view], e.protNTFS, e.protHFS, ek)
			break
		}
		if panicked != "" || aborted {
			break
		}
	}
	if !stateUnstable {
		// config files are left out: go-git marshals map-keyed subsections
		// ([submodule "x"]) in Go map order
		out.StateHash = d.Digest(top, func(p string) bool {
			in, _ := under(pers, p, gitDir)
			return in && strings.HasSuffix(p, "/config")
		})
	}
	if d.OpenHandleCount() > 0 {
		out.Probe("open-handles-at-end")
	}
	return out
}

func classAt(cs []string, k int) string {
	if k < len(cs) {
		return cs[k]
	}
	return "-"
}

func knownOp(op string) bool {
	for _, o := range opNames {
		if o == op {
			return true
		}
	}
	return false
}

func execPlan(t *testing.T, pa any) core.Outcome {
	p := pa.(*Plan)
	if len(p.Steps) == 0 {
		q := *p
		q.Steps = []Step{{Op: "checkout", Force: true}}
		p = &q
	}
	out := run(t, p, true)
	if out.Signature != "" && strings.HasSuffix(out.Signature, "|after-fault") {
		// a violation the same plan shows without the fault is not the fault's doing
		base := run(t, p, false)
		if base.Signature != "" {
			out.Signature = base.Signature
			out.Message = base.Message + " [the plan violates without its fault too; reported under that signature]"
		}
	}
	return out
}
