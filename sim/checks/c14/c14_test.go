//go:build verif

// C14 — reference and reflog storage cannot escape the refs namespace.
//
// The simulated disk is the reference monitor. A repository image at
// /top/repo.git is surrounded by sentinel files (config, index, objects/..,
// description, shallow, hooks/.., /top/outside.txt, /top/other.git, /secret).
// A real filesystem.Storage is driven with generated reference names (grammar
// rich in "..", ".", absolute paths, backslashes, NTFS/HFS disguises, control
// characters, one-level metadata names in both cases) through every reference
// and reflog entry point. EVERY disk operation of the monitored phase (stats
// and reads included) has its resolved path classified; anything outside
// refs/**, logs/**, packed-refs (+ its temp file), the all-caps one-level
// slots and the repository directory itself is a violation, as is any change
// of sentinel bytes.
package c14

import (
	"bytes"
	"context"
	"errors"
	"fmt"
	"io"
	"io/fs"
	"os"
	"path"
	"sort"
	"strings"
	"syscall"
	"testing"
	"time"
	"unicode"

	"github.com/go-git/go-billy/v6"
	git "github.com/go-git/go-git/v6"
	"github.com/go-git/go-git/v6/config"
	"github.com/go-git/go-git/v6/plumbing"
	"github.com/go-git/go-git/v6/plumbing/cache"
	"github.com/go-git/go-git/v6/plumbing/client"
	"github.com/go-git/go-git/v6/plumbing/format/packfile"
	"github.com/go-git/go-git/v6/plumbing/format/reflog"
	"github.com/go-git/go-git/v6/plumbing/object"
	"github.com/go-git/go-git/v6/plumbing/protocol/capability"
	"github.com/go-git/go-git/v6/plumbing/protocol/packp"
	"github.com/go-git/go-git/v6/plumbing/storer"
	"github.com/go-git/go-git/v6/plumbing/transport"
	"github.com/go-git/go-git/v6/storage"
	"github.com/go-git/go-git/v6/storage/filesystem"
	"github.com/go-git/go-git/v6/storage/filesystem/dotgit"
	"github.com/go-git/go-git/v6/storage/memory"
	"github.com/go-git/go-git/v6/verifsim/core"
	"github.com/go-git/go-git/v6/verifsim/hooks"
	"github.com/go-git/go-git/v6/verifsim/simfs"
)

const (
	top  = "/top"
	repo = "/top/repo.git"

	hashA = "1111111111111111111111111111111111111111"
	hashB = "2222222222222222222222222222222222222222"
	hashC = "3333333333333333333333333333333333333333"

	// bsStandIn replaces a backslash in file names on POSIX/HFS personalities,
	// where it is an ordinary character (simfs turns it into "/" on every
	// personality).
	bsStandIn = "\uFF3C"
)

func mod(i, n int) int {
	if n <= 0 {
		return 0
	}
	i %= n
	if i < 0 {
		i += n
	}
	return i
}

// ---------------------------------------------------------------- plan

type Name struct {
	Lead  string   `json:"lead"`
	Comps []string `json:"comps"`
	Bs    []bool   `json:"bs"`  // Bs[i]: the separator before Comps[i] (i>=1) is a backslash
	Via   int      `json:"via"` // 0 direct, 1 as parsed from an advertisement line, 2 mapped through the default fetch refspec
}

type Op struct {
	Kind string `json:"kind"`
	Name int    `json:"name"`
	Alt  int    `json:"alt"`
}

type Plan struct {
	Pers       int    `json:"pers"`    // 0 posix, 1 ntfs, 2 hfs
	FSMode     int    `json:"fs_mode"` // 0 view rooted at the repository, 1 chroot view two levels down, 2 unclamped join under the repository path
	Links      []int  `json:"links"`   // planted symlinks (see linkKinds), 0 = none
	EvilPacked bool   `json:"evil_packed"`
	Names      []Name `json:"names"`
	Ops        []Op   `json:"ops"`
	// Fetch > 0: after the operations, a real fetch (in-process file transport)
	// from a remote that ADVERTISES the plan's names; 1 = default refspec,
	// 2 = +refs/*:refs/*
	Fetch        int `json:"fetch"`
	FetchName    int `json:"fetch_name"`    // which plan name the remote advertises
	FetchVariant int `json:"fetch_variant"` // names outside refs/: 0 as is, 1 under refs/heads/, 2 under refs/tags/
	// Recv > 0: after the operations (instead of a fetch), the real server side
	// of a push, transport.ReceivePack, on the storage under test with ONE
	// command whose name is one of the plan's names.
	Recv     int `json:"recv"`
	RecvName int `json:"recv_name"`
	RecvKind int `json:"recv_kind"` // 0 create, 1 update, 2 delete
	RecvOld  int `json:"recv_old"`  // old value of update/delete: 0 hashA (refs/heads/main, ORIG_HEAD), 1 hashB, 2 hashC (shallow, info/exclude, planted files)
}

var opKinds = []string{"get", "set", "setsym", "symtarget", "cas", "remove", "list", "count", "pack", "follow", "rlread", "rlappend", "rldelete"}

func (n Name) raw() string {
	var b strings.Builder
	b.WriteString(n.Lead)
	for i, c := range n.Comps {
		if i >= 8 {
			break
		}
		if i > 0 {
			if i < len(n.Bs) && n.Bs[i] {
				b.WriteByte('\\')
			} else {
				b.WriteByte('/')
			}
		}
		b.WriteString(c)
	}
	return b.String()
}

var fetchSpec = config.RefSpec("+refs/heads/*:refs/remotes/origin/*")

// deliver turns a generated string into the ReferenceName the storage sees.
func (n Name) deliver() plumbing.ReferenceName {
	s := n.raw()
	switch mod(n.Via, 3) {
	case 1:
		// the way an advertised-refs line ("<hash> <name>") becomes a reference
		return plumbing.NewReferenceFromStrings(s, hashB).Name()
	case 2:
		// the local name a fetch with the default refspec derives from an advertised name
		rn := plumbing.ReferenceName(s)
		if fetchSpec.Match(rn) {
			return fetchSpec.Dst(rn)
		}
		return rn
	}
	return plumbing.ReferenceName(s)
}

var vocab = []string{"..", ".", "", "refs", "heads", "main", "a", "config", "index", "objects", "packed-refs", "HEAD", "HEAD.lock", "ORIG_HEAD",
	"logs", ".git", ".GIT", "git~1", "a.", "a ", "a\u200c", "con", "x::$INDEX_ALLOCATION", "a\\..\\..\\config", "\x01ctl", "a\nb", "/abs", "C:", "C:\\x",
	"CONFIG", "INDEX", "OBJECTS", "DESCRIPTION", "description", "shallow", "hooks", "pre-commit", "info", "link", "flink", "remotes", "origin", "tags", "v1", "b",
	".. ", "...", "..:x", "..::$DATA", "\u200c..", ".\u200d.", ". ", ".\u200c", "top", "repo.git", "outside.txt", "secret", "Config", "main.", "MAIN", "\x7f"}

var dotdots = []string{"..", "..", "..", "..", ".. ", "...", "..::$DATA", "\u200c..", ".\u200d.", "..\u200e"}

var tails = [][]string{{"config"}, {"index"}, {"CONFIG"}, {"objects", "ab", "cdef0123456789abcdef0123456789abcdef01"}, {"description"}, {"shallow"},
	{"hooks", "pre-commit"}, {"HEAD"}, {"packed-refs"}, {"logs", "HEAD"}, {"..", "outside.txt"}, {"..", "other.git", "HEAD"}, {"..", "..", "secret"},
	{"..", "outside-dir", "planted"}, {"info", "exclude"}, {"Config"}, {"config."}, {"config::$DATA"}, {"con\u200cfig"}, {"INDEX"}}

var legit = []string{"refs/heads/main", "refs/heads/a", "refs/heads/a/b", "refs/tags/v1", "refs/heads/packed", "refs/tags/v0", "HEAD", "ORIG_HEAD", "FETCH_HEAD",
	"refs/remotes/origin/main", "refs/heads/link/x", "refs/heads/link", "refs/heads/flink", "refs/link/exclude", "refs/remotes/origin/planted", "refs/heads/new/deep/er"}

var oneLevel = []string{"config", "index", "objects", "description", "packed-refs", "logs", "refs", "shallow", "hooks", "info", "CONFIG", "INDEX", "OBJECTS",
	"DESCRIPTION", "SHALLOW", "HOOKS", "INFO", "LOGS", "REFS", "MODULES", "PACKED_REFS", "HEAD.lock", "head", "Head", ".git", "con", "CON", "C:", "main", "Config", "MERGE_HEAD", "A"}

func splitName(s string) Name {
	return Name{Comps: strings.Split(s, "/")}
}

func genName(r *core.Rand) Name {
	var n Name
	switch k := r.Intn(100); {
	case k < 30:
		n = splitName(legit[r.Intn(len(legit))])
	case k < 45:
		n = Name{Comps: []string{oneLevel[r.Intn(len(oneLevel))]}}
	case k < 70:
		// targeted: climb out of a ref directory and name a sentinel
		n.Lead = r.Pick("refs/heads/", "refs/heads/", "refs/", "refs/tags/", "refs/remotes/origin/", "logs/", "")
		up := r.Range(1, 4)
		for i := 0; i < up; i++ {
			if r.Chance(1, 6) {
				n.Comps = append(n.Comps, r.Pick("a", "main", "x", "link"))
			}
			n.Comps = append(n.Comps, dotdots[r.Intn(len(dotdots))])
		}
		n.Comps = append(n.Comps, tails[r.Intn(len(tails))]...)
	default:
		n.Lead = r.Pick("", "", "/", "refs/", "refs/", "refs/heads/", "refs/heads/", "logs/", "C:\\", "\\", "/top/repo.git/", "refs/heads/link/")
		depth := r.Range(1, 6)
		for i := 0; i < depth; i++ {
			n.Comps = append(n.Comps, vocab[r.Intn(len(vocab))])
		}
	}
	n.Bs = make([]bool, len(n.Comps))
	if r.Chance(1, 5) {
		for i := range n.Bs {
			n.Bs[i] = r.Chance(1, 2)
		}
	}
	switch k := r.Intn(10); {
	case k < 6:
		n.Via = 0
	case k < 8:
		n.Via = 1
	default:
		n.Via = 2
	}
	return n
}

func genPlan(r *core.Rand, tier string) any {
	p := &Plan{Pers: r.Intn(3), FSMode: r.Intn(3), EvilPacked: r.Chance(1, 5)}
	if r.Chance(1, 4) {
		nl := r.Range(1, 2)
		for i := 0; i < nl; i++ {
			p.Links = append(p.Links, 1+r.Intn(len(linkKinds)-1))
		}
	}
	nn := r.Range(1, 5)
	for i := 0; i < nn; i++ {
		p.Names = append(p.Names, genName(r))
	}
	no := r.Range(3, 12)
	for i := 0; i < no; i++ {
		op := Op{Name: r.Intn(nn), Alt: r.Intn(8)}
		switch k := r.Intn(100); {
		case k < 14:
			op.Kind = "get"
		case k < 28:
			op.Kind = "set"
		case k < 34:
			op.Kind = "setsym"
		case k < 41:
			op.Kind = "symtarget"
		case k < 49:
			op.Kind = "cas"
		case k < 61:
			op.Kind = "remove"
		case k < 65:
			op.Kind = "list"
		case k < 68:
			op.Kind = "count"
		case k < 73:
			op.Kind = "pack"
		case k < 77:
			op.Kind = "follow"
		case k < 85:
			op.Kind = "rlread"
		case k < 93:
			op.Kind = "rlappend"
		default:
			op.Kind = "rldelete"
		}
		p.Ops = append(p.Ops, op)
	}
	switch k := r.Intn(75); {
	case k < 3: // 1 in 25
		p.Fetch = 1 + r.Intn(2)
		p.FetchName = r.Intn(nn)
		p.FetchVariant = r.Intn(3)
	case k < 8: // 1 in 15
		p.Recv = 1
		p.RecvName = r.Intn(nn)
		p.RecvKind = r.Intn(3)
		p.RecvOld = r.Intn(3)
	}
	return p
}

// ---------------------------------------------------------------- name folding (mirrors simfs, for classification only)

func hfsIgnorable(r rune) bool {
	switch r {
	case 0x200c, 0x200d, 0x200e, 0x200f, 0x202a, 0x202b, 0x202c, 0x202d, 0x202e,
		0x206a, 0x206b, 0x206c, 0x206d, 0x206e, 0x206f, 0xfeff:
		return true
	}
	return false
}

func stripIgnorable(s string) string {
	var b strings.Builder
	for _, r := range s {
		if !hfsIgnorable(r) {
			b.WriteRune(r)
		}
	}
	return b.String()
}

func foldComp(p simfs.Personality, name string) string {
	switch p {
	case simfs.NTFS:
		n := strings.ToLower(name)
		if i := strings.IndexByte(n, ':'); i >= 0 {
			n = n[:i]
		}
		n = strings.TrimRight(n, ". ")
		if n == "git~1" {
			n = ".git"
		}
		if n == "" {
			n = strings.ToLower(name)
		}
		return n
	case simfs.HFS:
		var b strings.Builder
		for _, r := range name {
			if hfsIgnorable(r) {
				continue
			}
			b.WriteRune(unicode.ToLower(r))
		}
		if b.Len() == 0 {
			return name
		}
		return b.String()
	}
	return name
}

// normDot models the name normalisation done above the directory lookup that
// git's is_ntfs_dot_generic / is_hfs_dot_generic defend against: on NTFS a
// component made only of dots and spaces (optionally followed by a stream
// suffix) is "." or ".."; on HFS+ ignorable code points vanish, so a component
// that is "." or ".." without them is that component.
func normDot(p simfs.Personality, c string) string {
	switch p {
	case simfs.NTFS:
		s := c
		if i := strings.IndexByte(s, ':'); i >= 0 {
			s = s[:i]
		}
		if s != "" && strings.TrimRight(s, ". ") == "" {
			if strings.HasPrefix(s, "..") {
				return ".."
			}
			if strings.HasPrefix(s, ".") {
				return "."
			}
		}
	case simfs.HFS:
		if t := stripIgnorable(c); t == "." || t == ".." {
			return t
		}
	}
	return c
}

// ---------------------------------------------------------------- filesystem view handed to go-git

// wfs is the billy.Filesystem the storage under test runs on: a thin layer
// over a simfs view that (a) keeps a backslash an ordinary file-name character
// on POSIX/HFS personalities, (b) applies normDot, and (c) in "naive" mode
// joins names under the repository path WITHOUT clamping ".." at the view root
// (what a plain os-based filesystem rooted by path concatenation does), so a
// climbing name really leaves /top/repo.git.
type wfs struct {
	inner *simfs.FS
	pers  simfs.Personality
	naive bool
}

var (
	_ billy.Filesystem = (*wfs)(nil)
	_ billy.Capable    = (*wfs)(nil)
)

func (w *wfs) m(name string) string {
	if w.pers == simfs.NTFS {
		name = strings.ReplaceAll(name, "\\", "/")
	} else {
		name = strings.ReplaceAll(name, "\\", bsStandIn)
	}
	parts := strings.Split(name, "/")
	for i, c := range parts {
		parts[i] = normDot(w.pers, c)
	}
	name = strings.Join(parts, "/")
	if w.naive {
		return path.Clean(repo + "/" + name)
	}
	return name
}

// lexical is the absolute path a name denotes before symlinks are followed.
func (w *wfs) lexical(name string) string {
	if w.naive {
		return w.m(name)
	}
	rel := path.Clean("/" + w.m(name))
	if rel == "/" {
		return repo
	}
	return repo + rel
}

func (w *wfs) unmap(name string) string {
	if w.naive {
		switch {
		case name == repo:
			name = "."
		case strings.HasPrefix(name, repo+"/"):
			name = name[len(repo)+1:]
		}
	}
	if w.pers != simfs.NTFS {
		name = strings.ReplaceAll(name, bsStandIn, "\\")
	}
	return name
}

type wfile struct {
	billy.File
	name string
}

func (f *wfile) Name() string { return f.name }
func (f *wfile) Lock() error {
	if l, ok := f.File.(billy.Locker); ok {
		return l.Lock()
	}
	return nil
}
func (f *wfile) Unlock() error {
	if l, ok := f.File.(billy.Locker); ok {
		return l.Unlock()
	}
	return nil
}

type wentry struct {
	fs.DirEntry
	name string
}

func (e wentry) Name() string { return e.name }

func (w *wfs) wrap(f billy.File, err error) (billy.File, error) {
	if err != nil {
		return nil, err
	}
	return &wfile{File: f, name: w.unmap(f.Name())}, nil
}

func (w *wfs) Capabilities() billy.Capability { return billy.DefaultCapabilities }
func (w *wfs) Join(elem ...string) string     { return path.Join(elem...) }
func (w *wfs) Root() string                   { return repo }
func (w *wfs) Create(n string) (billy.File, error) {
	return w.OpenFile(n, os.O_RDWR|os.O_CREATE|os.O_TRUNC, 0o666)
}
func (w *wfs) Open(n string) (billy.File, error) { return w.OpenFile(n, os.O_RDONLY, 0) }
func (w *wfs) OpenFile(n string, flag int, perm fs.FileMode) (billy.File, error) {
	return w.wrap(w.inner.OpenFile(w.m(n), flag, perm))
}
func (w *wfs) Stat(n string) (fs.FileInfo, error)  { return w.inner.Stat(w.m(n)) }
func (w *wfs) Lstat(n string) (fs.FileInfo, error) { return w.inner.Lstat(w.m(n)) }
func (w *wfs) Rename(a, b string) error            { return w.inner.Rename(w.m(a), w.m(b)) }
func (w *wfs) Remove(n string) error               { return w.inner.Remove(w.m(n)) }
func (w *wfs) MkdirAll(n string, perm fs.FileMode) error {
	return w.inner.MkdirAll(w.m(n), perm)
}
func (w *wfs) Symlink(target, link string) error { return w.inner.Symlink(target, w.m(link)) }
func (w *wfs) Readlink(n string) (string, error) { return w.inner.Readlink(w.m(n)) }
func (w *wfs) TempFile(dir, prefix string) (billy.File, error) {
	if dir == "" {
		dir = ".tmp"
	}
	return w.wrap(w.inner.TempFile(w.m(dir), prefix))
}
func (w *wfs) ReadDir(n string) ([]fs.DirEntry, error) {
	es, err := w.inner.ReadDir(w.m(n))
	if err != nil || w.pers == simfs.NTFS {
		return es, err
	}
	for i, e := range es {
		if strings.Contains(e.Name(), bsStandIn) {
			es[i] = wentry{DirEntry: e, name: strings.ReplaceAll(e.Name(), bsStandIn, "\\")}
		}
	}
	return es, nil
}
func (w *wfs) Chroot(p string) (billy.Filesystem, error) { return w.inner.Chroot(w.m(p)) }

// ---------------------------------------------------------------- image

type linkKind struct {
	at     string // link location, relative to the repository
	target string
	area   string // absolute directory everything reached through the link lives in
}

var linkKinds = []linkKind{
	{},
	{"refs/heads/link", "../../../outside-dir", "/top/outside-dir"},
	{"logs/refs/heads/link", "/top/outside-dir", "/top/outside-dir"},
	{"refs/link", "../info", "/top/repo.git/info"},
	{"refs/remotes", "/top/outside-dir/remotes", "/top/outside-dir"},
	{"refs/heads/flink", "/top/outside-dir/planted", "/top/outside-dir"},
}

func buildImage(p *Plan, pers simfs.Personality, evil string) *simfs.Disk {
	d := simfs.NewDisk()
	d.Personality = pers
	w := func(p, data string, mode fs.FileMode) { _ = d.WriteFile(p, []byte(data), mode) }
	w(repo+"/HEAD", "ref: refs/heads/main\n", 0o644)
	w(repo+"/ORIG_HEAD", hashA+"\n", 0o644)
	w(repo+"/config", "[core]\n\tbare = true\n\trepositoryformatversion = 0\n", 0o644)
	w(repo+"/index", "DIRC\x00\x00\x00\x02\x00\x00\x00\x00sentinel-index", 0o644)
	w(repo+"/description", "sentinel description\n", 0o644)
	w(repo+"/shallow", hashC+"\n", 0o644)
	w(repo+"/hooks/pre-commit", "#!/bin/sh\necho sentinel hook\n", 0o755)
	w(repo+"/info/exclude", hashC+"\n", 0o644)
	w(repo+"/modules/sub/HEAD", "ref: refs/heads/sub\n", 0o644)
	w(repo+"/objects/ab/cdef0123456789abcdef0123456789abcdef01", "x\x9csentinel-object", 0o444)
	w(repo+"/objects/pack/pack-sentinel.keep", "keep\n", 0o644)
	w(repo+"/refs/heads/main", hashA+"\n", 0o644)
	w(repo+"/refs/heads/a", hashA+"\n", 0o644)
	w(repo+"/refs/tags/v1", hashB+"\n", 0o644)
	packed := "# pack-refs with: peeled fully-peeled sorted \n" + hashB + " refs/heads/packed\n" + hashA + " refs/tags/v0\n"
	if p.EvilPacked && evil != "" && !strings.ContainsAny(evil, " \n") {
		packed += hashC + " " + evil + "\n"
	}
	w(repo+"/packed-refs", packed, 0o644)
	line := "0000000000000000000000000000000000000000 " + hashA + " T <t@example.com> 1700000000 +0000\tinit\n"
	w(repo+"/logs/HEAD", line, 0o644)
	w(repo+"/logs/refs/heads/main", line, 0o644)
	w(top+"/outside.txt", "sentinel outside\n", 0o644)
	w(top+"/other.git/HEAD", "ref: refs/heads/other\n", 0o644)
	w(top+"/other.git/config", "[core]\n\tbare = true\n", 0o644)
	w(top+"/outside-dir/planted", hashC+"\n", 0o644)
	w(top+"/outside-dir/x", hashC+"\n", 0o644)
	w(top+"/outside-dir/remotes/origin/planted", hashC+"\n", 0o644)
	w("/secret", "root:x:0:0\n", 0o600)
	for i, k := range p.Links {
		if i >= 3 {
			break
		}
		lk := linkKinds[mod(k, len(linkKinds))]
		if lk.at == "" {
			continue
		}
		_ = d.PlantSymlink(lk.target, repo+"/"+lk.at)
	}
	return d
}

// ---------------------------------------------------------------- classification

// metaNames: the other non-reference entries of the repository directory that exist in the image.
var metaNames = map[string]bool{"description": true, "shallow": true, "hooks": true, "info": true, "modules": true}

// isPseudoSlot is the predicate for "all-caps pseudo-ref slot": a file directly
// in the repository directory whose on-disk name is spelled [A-Z_]+ (HEAD,
// ORIG_HEAD, FETCH_HEAD, MERGE_HEAD, ... — what ReferenceName.IsSafe admits).
func isPseudoSlot(s string) bool {
	if s == "" {
		return false
	}
	for i := 0; i < len(s); i++ {
		if (s[i] < 'A' || s[i] > 'Z') && s[i] != '_' {
			return false
		}
	}
	return true
}

func splitPath(p string) []string {
	var out []string
	for _, s := range strings.Split(p, "/") {
		if s != "" {
			out = append(out, s)
		}
	}
	return out
}

func classify(pers simfs.Personality, p string) string {
	comps := splitPath(p)
	fc := make([]string, len(comps))
	for i, c := range comps {
		fc[i] = foldComp(pers, c)
	}
	if len(comps) < 2 || fc[0] != "top" || fc[1] != "repo.git" {
		return "outside-repo"
	}
	if len(comps) == 2 {
		return "repo-root"
	}
	switch fc[2] {
	case "refs", "logs":
		return fc[2]
	case "packed-refs", "packed-refs.lock":
		// (packed-refs.lock: the lock file of packed-refs under git's lock-file protocol)
		if len(comps) == 3 {
			return "packed-refs"
		}
		return "other"
	case ".tmp":
		if len(comps) == 3 {
			return "tmpdir"
		}
		if len(comps) == 4 && strings.HasPrefix(comps[3], "._packed-refs") {
			return "packed-tmp"
		}
		return "other"
	case "config", "index", "objects":
		return fc[2]
	}
	if metaNames[fc[2]] {
		return "other"
	}
	if len(comps) == 3 && isPseudoSlot(comps[2]) {
		return "pseudo"
	}
	// "<SLOT>.lock": the lock file of a pseudo-ref slot. Since /repo d0aa523 references are updated with git's
	// lock-file protocol (create <ref>.lock exclusively, write, rename over <ref>); the lock file of an allowed slot
	// belongs to that slot (git writes exactly these files: HEAD.lock, ORIG_HEAD.lock, ...). Lock files of names
	// under refs/ are inside refs/ anyway.
	if len(comps) == 3 && strings.HasSuffix(comps[2], ".lock") && isPseudoSlot(strings.TrimSuffix(comps[2], ".lock")) {
		return "pseudo"
	}
	return "other"
}

func allowedClass(c string) bool {
	switch c {
	case "refs", "logs", "packed-refs", "packed-tmp", "tmpdir", "pseudo":
		return true
	}
	return false
}

func hasPrefixComps(pers simfs.Personality, p, prefix string) bool {
	a, b := splitPath(p), splitPath(prefix)
	if len(a) < len(b) {
		return false
	}
	for i := range b {
		if foldComp(pers, a[i]) != foldComp(pers, b[i]) {
			return false
		}
	}
	return true
}

func hasCtl(s string) bool {
	for i := 0; i < len(s); i++ {
		if s[i] < 0x20 || s[i] == 0x7f {
			return true
		}
	}
	return false
}

var metaUpper = map[string]bool{"config": true, "index": true, "objects": true, "description": true, "shallow": true, "hooks": true, "info": true,
	"logs": true, "refs": true, "modules": true}

// nameClass: the first matching class in a fixed priority order.
func nameClass(s string) string {
	switch {
	case s == "":
		return "empty"
	case hasCtl(s):
		return "ctl"
	case strings.Contains(s, "\\"):
		return "backslash"
	case s[0] == '/' || (len(s) >= 2 && s[1] == ':' && unicode.IsLetter(rune(s[0]))):
		return "abs"
	}
	comps := strings.Split(s, "/")
	for _, c := range comps {
		if c == ".." {
			return "dotdot"
		}
	}
	for _, c := range comps {
		if c != "." && c != ".." && (normDot(simfs.NTFS, c) != c || normDot(simfs.HFS, c) != c) {
			return "dot-disguise"
		}
	}
	for _, c := range comps {
		if c == "." {
			return "dot"
		}
	}
	for _, c := range comps {
		if c == "" {
			return "empty-comp"
		}
	}
	for _, c := range comps {
		if stripIgnorable(c) != c {
			return "hfs-fold"
		}
	}
	for _, c := range comps {
		if strings.HasSuffix(c, ".") || strings.HasSuffix(c, " ") || strings.Contains(c, ":") || strings.EqualFold(c, "git~1") {
			return "ntfs-fold"
		}
	}
	if len(comps) == 1 {
		if isPseudoSlot(s) {
			if metaUpper[strings.ToLower(s)] {
				return "one-level-upper-meta"
			}
			return "pseudo"
		}
		return "one-level-lower"
	}
	if comps[0] != "refs" {
		return "outside-refs"
	}
	return "canonical"
}

func canonicalClass(c string) bool { return c == "canonical" || c == "pseudo" }

func errKind(err error) string {
	switch {
	case err == nil:
		return "ok"
	case errors.Is(err, dotgit.ErrReferenceNameEscape):
		return "refused"
	case errors.Is(err, plumbing.ErrReferenceNotFound):
		return "notfound"
	case errors.Is(err, storage.ErrReferenceHasChanged):
		return "changed"
	case errors.Is(err, dotgit.ErrIsDir):
		return "isdir"
	case errors.Is(err, dotgit.ErrEmptyRefFile):
		return "empty-ref-file"
	case errors.Is(err, dotgit.ErrPackedRefsBadFormat):
		return "packed-bad-format"
	case errors.Is(err, plumbing.ErrInvalidReferenceName):
		return "invalid-name"
	case errors.Is(err, syscall.EISDIR):
		return "EISDIR"
	case errors.Is(err, syscall.ENOTDIR):
		return "ENOTDIR"
	case errors.Is(err, syscall.ENOTEMPTY):
		return "ENOTEMPTY"
	case errors.Is(err, syscall.ELOOP):
		return "ELOOP"
	case errors.Is(err, os.ErrNotExist):
		return "ENOENT"
	case errors.Is(err, os.ErrExist):
		return "EEXIST"
	}
	return "other"
}

// ---------------------------------------------------------------- runner

type env struct {
	p     *Plan
	pers  simfs.Personality
	d     *simfs.Disk
	w     *wfs
	st    *filesystem.Storage
	out   *core.Outcome
	trace []string
	hlog  []string
	links []linkKind
	sent  string // sentinel digest (bytes outside the allowed area) at the start of the monitored phase
	// fetching: the fetch or receive-pack phase legitimately writes packs under objects/pack and reads config/shallow
	fetching bool
	recving  bool // the phase is receive-pack (no reads of config/shallow are expected)
}

func (e *env) logf(format string, a ...any) {
	if len(e.trace) < 300 {
		e.trace = append(e.trace, fmt.Sprintf(format, a...))
	}
}

func (e *env) inLinkArea(p string) bool {
	for _, lk := range e.links {
		if hasPrefixComps(e.pers, p, lk.area) {
			return true
		}
	}
	return false
}

// throughLink: the name (as a ref path or as a reflog path) lexically passes
// through, or is, a planted link.
func (e *env) throughLink(names []plumbing.ReferenceName) bool {
	for _, n := range names {
		for _, cand := range []string{string(n), "logs/" + string(n)} {
			lex := e.w.lexical(cand)
			for _, lk := range e.links {
				if hasPrefixComps(e.pers, lex, repo+"/"+lk.at) {
					return true
				}
			}
		}
	}
	return false
}

func (e *env) skipAllowed(p string) bool {
	if allowedClass(classify(e.pers, p)) {
		return true
	}
	if e.fetching && hasPrefixComps(e.pers, p, repo+"/objects/pack") {
		return true
	}
	return len(e.links) > 0 && e.inLinkArea(p)
}

func (e *env) sentinelDigest() string { return e.d.Digest("/", e.skipAllowed) }

func touchClass(c string) string {
	switch c {
	case "config", "index", "objects", "outside-repo":
		return c
	}
	return "other"
}

// sigOp: the operation kind as it appears in signatures (the three ways of
// writing a value are one entry point, dotgit.SetRef).
func sigOp(kind string) string {
	switch kind {
	case "setsym", "cas":
		return "set"
	}
	return kind
}

// judge inspects every disk operation recorded since start.
func (e *env) judge(i int, kind string, names []plumbing.ReferenceName, ncls string, treeWalk bool, start int, err error) bool {
	res := errKind(err)
	log := e.d.Log
	if start > len(log) {
		start = len(log)
	}
	touched := map[string]bool{}
	viaOK := len(e.links) > 0 && (treeWalk || e.throughLink(names))
	var bad *simfs.Op
	badClass := ""
	mutated := false
	for k := start; k < len(log); k++ {
		op := &log[k]
		mutated = mutated || op.Mutating
		for _, pth := range []string{op.Path, op.Path2} {
			if pth == "" {
				continue
			}
			c := classify(e.pers, pth)
			switch {
			case allowedClass(c):
			case c == "repo-root" && !op.Mutating:
			case e.fetching && hasPrefixComps(e.pers, pth, repo+"/objects"):
				// a fetch stores the received pack and looks objects up
				c = "fetch-objects"
			case e.fetching && !e.recving && !op.Mutating && (c == "config" || hasPrefixComps(e.pers, pth, repo+"/shallow")):
				// (a fetch reads them; ReceivePack never does, so there they stay judged)
				c = "fetch-reads-" + path.Base(pth)
			case viaOK && e.inLinkArea(pth):
				c = "via-link"
			default:
				if bad == nil {
					bad, badClass = op, touchClass(c)
				}
				c = "BAD:" + touchClass(c)
			}
			touched[c] = true
		}
	}
	tl := make([]string, 0, len(touched))
	for c := range touched {
		tl = append(tl, c)
	}
	sort.Strings(tl)
	shown := ""
	if len(names) > 0 {
		shown = fmt.Sprintf("%q", string(names[len(names)-1]))
	}
	e.logf("%d %s %s [%s] -> %s touched=%v", i, kind, shown, ncls, res, tl)
	e.hlog = append(e.hlog, kind+"|"+ncls+"|"+res+"|"+strings.Join(tl, ","))
	e.out.Probe("op:" + kind)
	if touched["via-link"] {
		e.out.Probe("via-link")
		e.out.Probe("via-link:" + kind)
	}
	if bad != nil {
		e.out.Fail(fmt.Sprintf("C14|%s|touched:%s|%s|%s", sigOp(kind), badClass, ncls, e.pers),
			"%s(%s) [name class %s, result %s, %s personality, fs mode %d] touched %s: disk op %s",
			kind, shown, ncls, res, e.pers, mod(e.p.FSMode, 3), bad.Path, bad.String())
		return false
	}
	// only a mutating disk operation can change bytes; the digest is carried from step to step
	if mutated && e.sentinelDigest() != e.sent {
		e.out.Fail(fmt.Sprintf("C14|%s|sentinel-modified|%s|%s", sigOp(kind), ncls, e.pers),
			"%s(%s) [name class %s, result %s] changed bytes outside the allowed area although every recorded path was inside it", kind, shown, ncls, res)
		return false
	}
	if len(names) > 0 {
		switch {
		case res == "refused":
			e.out.Probe("refused:" + ncls)
			if len(log) > start {
				e.out.Probe("refused-but-touched-allowed-area")
			}
		default:
			e.out.Probe("accepted-inside:" + ncls)
			if !canonicalClass(ncls) && res == "ok" {
				e.out.Probe("accepted-ok-noncanonical:" + ncls)
			}
		}
	}
	return true
}

func (e *env) name(i int) plumbing.ReferenceName {
	if len(e.p.Names) == 0 {
		return "refs/heads/main"
	}
	return e.p.Names[mod(i, len(e.p.Names))].deliver()
}

var fixedWhen = time.Unix(1_700_000_100, 0).UTC()

// fetchStep drives the real fetch path: a memory.Storage remote (which stores
// any name) advertises the plan's names over go-git's in-process file
// transport; Remote.Fetch maps them through the refspec (and tag following)
// and hands them to the filesystem storage under test.
func (e *env) fetchStep(i int) bool {
	remote := memory.NewStorage()
	sig := object.Signature{Name: "T", Email: "t@example.com", When: fixedWhen}
	to := remote.NewEncodedObject()
	if err := (&object.Tree{}).Encode(to); err != nil {
		return true
	}
	th, _ := remote.SetEncodedObject(to)
	co := remote.NewEncodedObject()
	if err := (&object.Commit{Author: sig, Committer: sig, Message: "c14", TreeHash: th}).Encode(co); err != nil {
		return true
	}
	ch, _ := remote.SetEncodedObject(co)
	_ = remote.SetReference(plumbing.NewSymbolicReference(plumbing.HEAD, "refs/heads/main"))
	_ = remote.SetReference(plumbing.NewHashReference("refs/heads/main", ch))
	// exactly ONE hostile name next to refs/heads/main: the order in which a
	// fetch applies several updates follows Go map order, and it stops at the
	// first refusal
	raw := "refs/heads/topic"
	if len(e.p.Names) > 0 {
		raw = e.p.Names[mod(e.p.FetchName, len(e.p.Names))].raw()
	}
	switch v := mod(e.p.FetchVariant, 3); {
	case strings.HasPrefix(raw, "refs/") || v == 0:
	case v == 1:
		raw = "refs/heads/" + raw
	default:
		raw = "refs/tags/" + raw
	}
	ncls := nameClass(raw)
	var adv []plumbing.ReferenceName
	if raw != "" && remote.SetReference(plumbing.NewHashReference(plumbing.ReferenceName(raw), ch)) == nil {
		adv = append(adv, plumbing.ReferenceName(raw))
	}
	spec := config.RefSpec("+refs/heads/*:refs/remotes/origin/*")
	if e.p.Fetch%2 == 0 {
		spec = "+refs/*:refs/*"
	}
	e.fetching = true
	e.sent = e.sentinelDigest()
	start := len(e.d.Log)
	rem := git.NewRemote(e.st, &config.RemoteConfig{Name: "origin", URLs: []string{"file:///remote"}, Fetch: []config.RefSpec{spec}})
	err := rem.Fetch(&git.FetchOptions{RemoteName: "origin", RefSpecs: []config.RefSpec{spec},
		ClientOptions: []client.Option{client.WithLoader(transport.MapLoader{"/remote": remote})}})
	switch {
	case err == nil:
		e.out.Probe("fetch:ok")
	case errors.Is(err, git.NoErrAlreadyUpToDate):
		e.out.Probe("fetch:up-to-date")
		err = nil
	case errors.Is(err, dotgit.ErrReferenceNameEscape):
		e.out.Probe("fetch:refused-by-storage")
	default:
		e.out.Probe("fetch:other-error")
	}
	// a fetch lists the local references (tree walk) before updating them
	ok := e.judge(i, "fetch", adv, ncls, true, start, err)
	// background descriptor release of the pack just written must not leak
	// into the log of a later operation: the fetch is the last step
	return ok
}

func (e *env) step(i int, op Op) bool {
	kind := op.Kind
	known := false
	for _, k := range opKinds {
		known = known || k == kind
	}
	if !known {
		kind = "get"
	}
	n := e.name(op.Name)
	ncls := nameClass(string(n))
	names := []plumbing.ReferenceName{n}
	treeWalk := false
	start := len(e.d.Log)
	var err error
	st := e.st
	switch kind {
	case "get":
		_, err = st.Reference(n)
	case "set":
		h := hashB
		if op.Alt%2 == 1 {
			h = hashC
		}
		err = st.SetReference(plumbing.NewHashReference(n, plumbing.NewHash(h)))
	case "setsym":
		err = st.SetReference(plumbing.NewSymbolicReference(n, "refs/heads/main"))
	case "symtarget":
		holder := plumbing.ReferenceName([]string{"refs/heads/sym", "HEAD", "refs/remotes/origin/HEAD"}[mod(op.Alt, 3)])
		names = []plumbing.ReferenceName{holder, n}
		err = st.SetReference(plumbing.NewSymbolicReference(holder, n))
		if err == nil {
			// what every consumer of a symbolic reference does next
			// (storer.ResolveReference, bounded to 5 hops: a cycle costs it 1024)
			cur := holder
			for hop := 0; hop < 5; hop++ {
				var r *plumbing.Reference
				r, err = st.Reference(cur)
				if err != nil || r.Type() != plumbing.SymbolicReference {
					break
				}
				cur = r.Target()
				// a target read back from disk is a name this operation uses too
				// (for the planted-link rule); the name class stays that of n
				names = append([]plumbing.ReferenceName{cur}, names...)
			}
		}
	case "cas":
		var old *plumbing.Reference
		switch mod(op.Alt, 3) {
		case 1:
			old = plumbing.NewHashReference(n, plumbing.NewHash(hashA))
		case 2:
			old = plumbing.NewHashReference(n, plumbing.NewHash(hashC))
		}
		err = st.CheckAndSetReference(plumbing.NewHashReference(n, plumbing.NewHash(hashB)), old)
	case "remove":
		err = st.RemoveReference(n)
	case "list", "follow":
		names = nil
		treeWalk = true
		ncls = "listing"
		var listed []plumbing.ReferenceName
		var it storer.ReferenceIter
		it, err = st.IterReferences()
		if err == nil {
			err = it.ForEach(func(r *plumbing.Reference) error {
				listed = append(listed, r.Name())
				if r.Type() == plumbing.SymbolicReference {
					listed = append(listed, r.Target())
				}
				return nil
			})
		}
		if !e.judge(i, "list", nil, ncls, true, start, err) {
			return false
		}
		if kind == "list" {
			return true
		}
		// a consumer of the listing looks every listed name (and symbolic
		// target) up again and reads its reflog
		for k, ln := range listed {
			if k >= 12 {
				break
			}
			lc := nameClass(string(ln))
			s0 := len(e.d.Log)
			_, gerr := st.Reference(ln)
			if !e.judge(i, "get", []plumbing.ReferenceName{ln}, lc, false, s0, gerr) {
				return false
			}
			s0 = len(e.d.Log)
			_, rerr := st.Reflog(ln)
			if !e.judge(i, "rlread", []plumbing.ReferenceName{ln}, lc, false, s0, rerr) {
				return false
			}
		}
		return true
	case "count":
		names = nil
		treeWalk = true
		ncls = "listing"
		_, err = st.CountLooseRefs()
	case "pack":
		names = nil
		treeWalk = true
		ncls = "listing"
		err = st.PackRefs()
	case "rlread":
		_, err = st.Reflog(n)
	case "rlappend":
		err = st.AppendReflog(n, &reflog.Entry{OldHash: plumbing.NewHash(hashA), NewHash: plumbing.NewHash(hashB),
			Committer: reflog.Signature{Name: "T", Email: "t@example.com", When: fixedWhen}, Message: "update"})
	case "rldelete":
		err = st.DeleteReflog(n)
	}
	return e.judge(i, kind, names, ncls, treeWalk, start, err)
}

// pushPack: a commit with an empty tree and the pack that carries both
// (constant content, built once).
var pushPack struct {
	built  bool
	commit plumbing.Hash
	pack   []byte
}

func buildPushPack() bool {
	if pushPack.built {
		return len(pushPack.pack) > 0
	}
	pushPack.built = true
	ms := memory.NewStorage()
	sig := object.Signature{Name: "T", Email: "t@example.com", When: fixedWhen}
	to := ms.NewEncodedObject()
	if err := (&object.Tree{}).Encode(to); err != nil {
		return false
	}
	th, _ := ms.SetEncodedObject(to)
	co := ms.NewEncodedObject()
	if err := (&object.Commit{Author: sig, Committer: sig, Message: "c14 push", TreeHash: th}).Encode(co); err != nil {
		return false
	}
	ch, _ := ms.SetEncodedObject(co)
	hs := []plumbing.Hash{ch, th}
	sort.Slice(hs, func(a, b int) bool { return hs[a].String() < hs[b].String() })
	var buf bytes.Buffer
	if _, err := packfile.NewEncoder(&buf, ms, false).Encode(hs, 0); err != nil {
		return false
	}
	pushPack.commit, pushPack.pack = ch, buf.Bytes()
	return true
}

type bufCloser struct{ bytes.Buffer }

func (*bufCloser) Close() error { return nil }

// recvStep runs the real server side of a push (transport.ReceivePack:
// advertisement, update-request decoding, unpacking, updateReferences,
// report-status) on the storage under test. The client is scripted: one
// command (create with a commit carried by the accompanying pack, update, or
// delete) whose name is one of the plan's names, exactly as the wire decoder
// delivers it (fmt.Sscanf %s: cut at the first white space).
func (e *env) recvStep(i int) bool {
	raw := "refs/heads/topic"
	if len(e.p.Names) > 0 {
		raw = e.p.Names[mod(e.p.RecvName, len(e.p.Names))].raw()
	}
	if f := strings.Fields(raw); len(f) > 0 && !strings.ContainsRune(raw, 0) {
		raw = f[0]
	} else {
		e.out.Probe("recv:name-not-encodable")
		return true
	}
	if !buildPushPack() {
		e.out.Probe("recv:no-pack")
		return true
	}
	name := plumbing.ReferenceName(raw)
	ncls := nameClass(raw)
	old := plumbing.NewHash([]string{hashA, hashB, hashC}[mod(e.p.RecvOld, 3)])
	cmd := &packp.Command{Name: name, Old: old, New: pushPack.commit}
	kind := []string{"create", "update", "delete"}[mod(e.p.RecvKind, 3)]
	switch kind {
	case "create":
		cmd.Old = plumbing.ZeroHash
	case "delete":
		cmd.New = plumbing.ZeroHash
	}
	req := &packp.UpdateRequests{}
	req.Capabilities.Set(capability.ReportStatus)
	req.Commands = []*packp.Command{cmd}
	var in bytes.Buffer
	if err := req.Encode(&in); err != nil {
		e.out.Probe("recv:name-not-encodable")
		return true
	}
	if kind != "delete" {
		in.Write(pushPack.pack)
	}
	// An earlier symtarget step may have left HEAD / refs/heads/sym /
	// refs/remotes/origin/HEAD pointing at a hostile target; the advertisement
	// resolves symbolic references, the storage refuses the target and
	// ReceivePack stops before it reads the request (probe
	// recv:advertisement-would-fail). The administrator repairs them (direct
	// image write, not part of the monitored footprint) so that the command
	// itself is exercised.
	for k, h := range []string{"HEAD", "refs/heads/sym", "refs/remotes/origin/HEAD"} {
		b, ok := e.d.ReadFile(repo + "/" + h)
		if !ok || !strings.HasPrefix(string(b), "ref: ") || string(b) == "ref: refs/heads/main\n" {
			continue
		}
		e.out.Probe("recv:advertisement-would-fail")
		v := hashA + "\n"
		if k == 0 {
			v = "ref: refs/heads/main\n"
		}
		_ = e.d.WriteFile(repo+"/"+h, []byte(v), 0o644)
	}
	e.fetching, e.recving = true, true
	e.sent = e.sentinelDigest()
	start := len(e.d.Log)
	resp := &bufCloser{}
	err := transport.ReceivePack(context.Background(), e.st, io.NopCloser(&in), resp, &transport.ReceivePackRequest{})
	// report-status lines are looked up in the raw response: packp's client-side
	// decoders refuse some advertisements / reasons that contain hostile names
	status := "no-report"
	out := resp.Bytes()
	switch {
	case bytes.Contains(out, []byte("ok "+raw+"\n")):
		status = "ok"
	case bytes.Contains(out, []byte("ng "+raw+" ")):
		status = "ng"
	case bytes.Contains(out, []byte("unpack ")) && !bytes.Contains(out, []byte("unpack ok")):
		status = "unpack-failed"
	}
	e.out.Probe("recv:" + kind + ":" + status)
	if status == "no-report" {
		// the advertisement failed: a planted link or an unreadable ref file makes the listing fail
		e.out.Probe("recv:no-report:" + errKind(err))
		e.logf("%d recv: no report-status: %v", i, err)
	}
	e.out.Probe("recv-status:" + status + ":" + ncls)
	if ncls == "pseudo" {
		// HEAD / ORIG_HEAD / FETCH_HEAD-style names as push targets: inside the
		// allowed area, only counted
		e.out.Probe("recv-pseudo-target:" + kind + ":" + status)
	}
	if errors.Is(err, dotgit.ErrReferenceNameEscape) {
		e.out.Probe("recv:refused-by-storage")
	}
	// the advertisement lists the references (tree walk)
	return e.judge(i, "recv", []plumbing.ReferenceName{name}, ncls, true, start, err)
}

func execPlan(t *testing.T, pa any) (out core.Outcome) {
	hooks.Deterministic(true)
	p := pa.(*Plan)
	pers := simfs.Personality(mod(p.Pers, 3))
	evil := ""
	if len(p.Names) > 0 {
		evil = string(p.Names[0].deliver())
	}
	d := buildImage(p, pers, evil)
	e := &env{p: p, pers: pers, d: d, out: &out}
	for i, k := range p.Links {
		if i >= 3 {
			break
		}
		if lk := linkKinds[mod(k, len(linkKinds))]; lk.at != "" {
			e.links = append(e.links, lk)
		}
	}
	w := &wfs{pers: pers}
	switch mod(p.FSMode, 3) {
	case 0:
		w.inner = d.FS(repo, "t")
	case 1:
		c, err := d.FS(top, "t").Chroot("repo.git")
		if err != nil {
			out.Inconclusive = "chroot failed"
			return out
		}
		w.inner = c.(*simfs.FS)
	default:
		w.inner = d.FS("/", "t")
		w.naive = true
	}
	e.w = w
	e.st = filesystem.NewStorage(w, cache.NewObjectLRUDefault())
	defer e.st.Close()
	// NewStorage read config once; the monitored phase starts here
	d.ResetCounters()
	d.Record = true
	e.sent = e.sentinelDigest()

	nontriv := false
	for _, n := range p.Names {
		if !canonicalClass(nameClass(string(n.deliver()))) {
			nontriv = true
		}
	}
	ops := p.Ops
	if len(ops) > 16 {
		ops = ops[:16]
	}
	for i, op := range ops {
		if !e.step(i+1, op) {
			break
		}
	}
	// the end state is taken BEFORE the fetch / receive-pack phase: whether refs/heads/main
	// or the hostile name is applied first (Go map order inside Remote.Fetch)
	// decides what a refused fetch leaves behind
	out.StateHash = d.Digest(top, nil)
	switch {
	case out.Signature != "":
	case p.Recv > 0:
		e.recvStep(len(ops) + 1)
	case p.Fetch > 0:
		e.fetchStep(len(ops) + 1)
	}
	out.Probe("pers:" + pers.String())
	out.Probe(fmt.Sprintf("fsmode:%d", mod(p.FSMode, 3)))
	if len(e.links) > 0 {
		out.Probe("plan-with-links")
	}
	out.Steps = d.OpCount()
	out.Trace = e.trace
	out.LogHash = core.HashStrings(e.hlog)
	out.NonTrivial = nontriv
	if d.OpenHandleCount() > 0 {
		out.Probe("open-handles-at-end")
	}
	return out
}

func TestCheck(t *testing.T) {
	core.Main(t, core.Check{
		ID:    "C14",
		Level: "exploration",
		Rule: "plan = personality (posix/ntfs/hfs) x filesystem view (repository-rooted view, chroot view two levels down, unclamped join) x optional planted symlinks x optional hostile packed-refs line x 1-5 names " +
			"(30% legitimate, 15% one-level metadata names in both cases, 25% targeted climbs 'refs/heads/' + (.. or an NTFS/HFS disguise of it){1-4} + sentinel path, 30% free grammar over 60 components incl. " +
			"'', '.', '..', backslash, control characters, drive/absolute prefixes, trailing dot/space, ADS suffixes, git~1, HFS ignorable code points; 1 in 5 with backslash separators; delivered directly, " +
			"as parsed from an advertisement line, or mapped through the default fetch refspec) x 3-12 operations (Reference, SetReference hash/symbolic, symbolic TARGET + ResolveReference, CheckAndSetReference, " +
			"RemoveReference, IterReferences, listing followed by per-name lookups, CountLooseRefs, PackRefs, Reflog, AppendReflog, DeleteReflog); 1 plan in 25 ends with a real Remote.Fetch over the in-process file transport from a " +
			"memory.Storage remote that advertises refs/heads/main plus one of the plan's names (as is, or under refs/heads/ or refs/tags/), refspec +refs/heads/*:refs/remotes/origin/* or +refs/*:refs/*; 1 plan in 15 ends instead with the real server side of a push, transport.ReceivePack on the storage under test, " +
			"fed a scripted update-request with one command (create with a commit carried by the accompanying pack / update / delete, old value drawn from the three hashes present in the image) named by one of the plan's names; non-trivial = at least one generated name is non-canonical; distinct = distinct plan",
		Assumptions: []string{
			"allowed area = /top/repo.git/refs/**, /top/repo.git/logs/**, /top/repo.git/packed-refs, /top/repo.git/.tmp and .tmp/._packed-refs* (tmpPackedRefsPrefix; billy TempFile with an empty dir), " +
				"a file directly in /top/repo.git whose ON-DISK name is spelled [A-Z_]+ (the pseudo-ref slots ReferenceName.IsSafe admits: HEAD, ORIG_HEAD, FETCH_HEAD, ...), and non-mutating stat/readdir/mkdir-of-existing of /top/repo.git itself",
			"on the case-insensitive personalities the slot is judged by the name stored on disk: an all-caps NAME that folds onto config/index/objects/description/... is outside the allowed area (the statement: 'names that could resolve elsewhere are refused')",
			"every disk operation counts, stats and failed lookups included; a refused name (ErrReferenceNameEscape, nothing touched) is the expected good outcome; an accepted name whose footprint stays inside is fine too",
			"planted symlinks (refs/heads/link, logs/refs/heads/link, refs/link, refs/remotes, refs/heads/flink pointing outside refs) were put there by an administrator: paths in a link's target area are only COUNTED (probe via-link), " +
				"not judged, when the operation walks the ref tree or its name lexically passes through the link; the same area reached by a climbing name is judged; sentinel comparison skips link target areas in such plans",
			"simfs resolves '..' lexically before following symlinks (link/.. is the link's parent, not the target's); names with '..' are refused before that matters",
			"the filesystem handed to go-git is a thin layer over simfs: backslash stays an ordinary character on posix/hfs (simfs would turn it into '/'), a component of only dots/spaces(+stream suffix) on ntfs and a component equal to '.'/'..' " +
				"after dropping HFS-ignorable code points on hfs is treated as that dot component (the threat model of git's is_ntfs_dot_generic/is_hfs_dot_generic), and fs mode 2 joins names under /top/repo.git without clamping '..'",
			"names are delivered as plumbing.ReferenceName values (directly, via NewReferenceFromStrings as the advertisement decoder does, via RefSpec.Dst as fetch does) and, in the fetch phase, over the wire from an advertising remote; " +
				"during the fetch phase objects/** (the received pack) and non-mutating reads of config/shallow are additionally allowed (receive-pack phase: objects/** only, so a command named OBJECTS is not observable there), the fetch counts as a tree walk for planted links, it is the last step of its plan " +
				"(descriptor release of the new pack happens in the background) and StateHash is taken before it (Remote.Fetch applies updates in Go map order and stops at the first refusal); the receive-pack phase follows the same rules (op label recv; the command name is what packp's decoder delivers, i.e. cut at the first white space; " +
				"pseudo-ref names such as HEAD/ORIG_HEAD/FETCH_HEAD as push targets are inside the allowed area and only counted: probes recv-pseudo-target:*)",
		},
		Real: []string{"filesystem.Storage / ReferenceStorage / ReflogStorage methods", "dotgit.validReferenceName, plumbing.ReferenceName.IsSafe, pathutil.IsNTFSDot/IsHFSDot",
			"dotgit.Ref/SetRef/RemoveRef/Refs/CountLooseRefs/PackRefs/walkReferencesTree/rewritePackedRefsWithoutRef", "dotgit.ReflogReader/ReflogWriter/DeleteReflog, reflog.Encode/Decode",
			"config.RefSpec.Match/Dst, plumbing.NewReferenceFromStrings", "git.Remote.Fetch, transport/file in-process client+UploadPack server, packp advertisement encode/decode (fetch phase)",
			"transport.ReceivePack: AdvertiseRefs, packp.UpdateRequests decode, packfile.UpdateObjectStorage, updateReferences, report-status (receive-pack phase)"},
		Stub:    []string{"remote repository = memory.Storage (stores any name)", "push client = scripted update-request + pack in a bytes.Buffer", "disk (simfs: posix/ntfs/hfs name folding, symlinks, operation log with resolved paths)", "thin billy layer over simfs (backslash literal on posix/hfs, disguised-dot normalisation, unclamped join mode)"},
		Runs:    map[string]int{"quick": 120000, "thorough": 2000000},
		NewPlan: func() any { return &Plan{} },
		Gen:     genPlan,
		Exec:    execPlan,
		RequiredProbes: []string{"refused:dotdot", "refused:dot", "refused:dot-disguise", "refused:backslash", "refused:ctl", "refused:abs", "refused:one-level-lower", "refused:empty-comp", "refused:outside-refs",
			"accepted-inside:canonical", "accepted-inside:pseudo", "accepted-inside:ntfs-fold", "accepted-inside:hfs-fold", "via-link", "op:pack", "op:rlappend", "op:rldelete", "op:symtarget", "op:cas",
			"pers:posix", "pers:ntfs", "pers:hfs", "fsmode:0", "fsmode:1", "fsmode:2", "fetch:ok", "fetch:refused-by-storage", "op:fetch",
			"op:recv", "recv:refused-by-storage", "recv:create:ok", "recv:update:ok", "recv:delete:ok", "recv:create:ng"},
	})
}
