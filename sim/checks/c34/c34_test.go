//go:build verif

// C34 — pkt-line and sideband framing round-trip under any chunking.
//
// Real code: go-git's pktline writers and readers and the sideband
// Muxer/Demuxer. Stub: the byte stream between them. A packet sequence (or a
// sequence of sideband WriteChannel calls) is written with the real writers
// into a buffer; the buffer is then served by a deterministic chunking reader
// (chunkReader) whose split points, EOF style and optional truncation offset
// come from the plan, and read back with every reading API the packages
// export. The oracle is the list of (kind, payload) that was written, compared
// after every read call.
//
// How the statement's clauses are read (see also the comments at the checks):
//
//   - "read back as the same sequence regardless of how the byte stream is
//     split": for every complete packet, each API returns the same kind, the
//     same length and the same payload bytes, "ERR " packets surface as
//     *ErrorLine with the text given to WriteError, and after the last packet
//     the API signals end of stream in its documented way (io.EOF; Scanner:
//     Scan()==false with Err()==nil).
//
//   - "Malformed lengths are rejected without losing synchronisation on later
//     packets". After a non-hex / 0003 / >65520 header nobody can know where
//     the next packet starts, so pkt-line cannot promise to resynchronise over
//     an arbitrary payload. What the package can (and, by its source, means
//     to) guarantee, and what is checked here, is:
//     (a) such a header is rejected with the ErrInvalidPktLen class by every
//     API under every chunking;
//     (b) the rejection consumes exactly the four header bytes (Read, ReadLine,
//     Scanner) or nothing (PeekLine) — no read-ahead is lost — so when the
//     malformed header is a bare 4-byte unit the packets that follow it are
//     returned intact (a fresh Scanner is used after the failure because the
//     Scanner documents that scanning stops at the first error);
//     (c) the case the doc comment of pktline.Read spells out: a caller buffer
//     shorter than 4 bytes yields ErrInvalidPktLen and consumes nothing; a
//     caller buffer that cannot hold the packet yields io.ErrUnexpectedEOF,
//     the packet is discarded and "the stream is left positioned after the
//     packet so subsequent pkt-line reads stay in sync" — the position is
//     checked and the next packet must come back intact.
//
//   - truncation (the stream ends early). The statement quantifies over split
//     points and read sizes of streams written by go-git; it does not say HOW
//     a truncated stream must be reported. So under truncation only what is
//     within the statement is judged: everything returned successfully must be
//     exactly a prefix of the written sequence (packets wholly before the cut
//     are read intact, the truncated packet is never returned as a shorter
//     "success", no wrong bytes, no extra packet; demultiplexed pack/progress
//     bytes are a prefix of the originals and contain every complete frame),
//     and a too-short header, when it is reported as an error at all, must be
//     of the ErrInvalidPktLen class (Read's doc: "short pkt-line"). Whether
//     the cut is reported as an error or as a clean end of stream (io.EOF;
//     Scanner false with nil Err(); Demuxer io.EOF) is NOT judged: it is
//     counted as probe "truncation-reported-as-clean-eof:<api>:<where>".
//     Observation behind those probes (counted, not judged), two root causes:
//     (1) pktline.go:165 — Read returns io.ReadFull's error unchanged, and
//     io.ReadFull yields plain io.EOF when the stream ends exactly after a
//     length header that announces a payload; Read/ReadLine then return
//     io.EOF, Scanner.Scan ends with Err()==nil, Demuxer.Read returns io.EOF,
//     so io.ReadAll(Demuxer) on such a stream succeeds with short pack data;
//     (2) PeekLine (pktline.go:215 and :234) passes bufio.Reader.Peek's io.EOF
//     through for a cut anywhere inside a packet (header or payload).
//
//   - sideband: pack bytes and progress bytes delivered so far are, after
//     every Demuxer.Read, a prefix of what was written, and equal to it at
//     the end; io.EOF ends the stream at the flush (or at a frame boundary);
//     a channel-3 frame surfaces as an error carrying its text, after all
//     earlier pack/progress bytes were delivered.
package c34

import (
	"bufio"
	"bytes"
	"encoding/binary"
	"errors"
	"fmt"
	"io"
	"sort"
	"strings"
	"testing"

	"github.com/go-git/go-git/v6/plumbing/format/pktline"
	"github.com/go-git/go-git/v6/plumbing/protocol/packp/sideband"
	"github.com/go-git/go-git/v6/verifsim/core"
)

// ---------------------------------------------------------------- plan

type Pkt struct {
	K string `json:"k"`           // data | flush | delim | rend | err | bad
	N int    `json:"n,omitempty"` // data: payload length; err: message length; bad: malformed header variant
	W int    `json:"w,omitempty"` // writer variant / content class
}

type SBOp struct {
	Ch int `json:"ch"`          // 1 pack, 2 progress, 3 error message, 4 malformed header injected; anything else = pack
	N  int `json:"n,omitempty"` // bytes handed to one WriteChannel call
}

type Plan struct {
	Mode string `json:"mode"` // "pkt" | "sideband"
	Seed uint64 `json:"seed"` // content seed

	// pkt mode
	Pkts      []Pkt    `json:"pkts,omitempty"`
	APIs      []string `json:"apis,omitempty"` // per packet, cycled: read | readline | peek | scanner
	Bufs      []int    `json:"bufs,omitempty"` // caller buffer sizes for Read, cycled; <=0 = MaxSize
	PeekBuf   int      `json:"peek_buf,omitempty"`
	Bufio     bool     `json:"bufio,omitempty"` // wrap the stream in a bufio.Reader even without PeekLine
	PeekTwice bool     `json:"peek_twice,omitempty"`

	// sideband mode
	SB64k    bool   `json:"sb64k,omitempty"`
	Ops      []SBOp `json:"ops,omitempty"`
	RBufs    []int  `json:"rbufs,omitempty"` // Demuxer.Read buffer sizes, cycled
	Progress bool   `json:"progress,omitempty"`
	Flush    bool   `json:"flush,omitempty"`

	// the simulated byte stream
	ChunkMode   string `json:"chunk_mode,omitempty"` // one | list | pkt | hdr | both | whole
	Delta       int    `json:"delta,omitempty"`      // -1,0,+1 relative to the boundary (pkt/hdr/both)
	Chunks      []int  `json:"chunks,omitempty"`     // list mode: successive chunk sizes
	DefChunk    int    `json:"def_chunk,omitempty"`  // after the list: chunk size, <=0 = the rest at once
	EOFWithData bool   `json:"eof_with_data,omitempty"`
	TruncOn     bool   `json:"trunc_on,omitempty"`
	Trunc       int    `json:"trunc,omitempty"`     // stream ends after this many bytes
	TruncErr    bool   `json:"trunc_err,omitempty"` // end with io.ErrUnexpectedEOF instead of io.EOF
	EnumTrunc   bool   `json:"enum_trunc,omitempty"`
}

const (
	maxPayload = pktline.MaxPayloadSize // 65516
	maxPkts    = 48
	maxOps     = 24
)

var badHeaders = []string{"zzzz", "00g0", "0003", "fff1", "ffff", "-001", " 004", "0x04", "00\n4", "+004", "fff5", "\x00\x00\x00\x04", "000G", "0003"}

// ---------------------------------------------------------------- chunking reader (the stub)

// seg is one unit of the encoded stream: a pkt-line or a malformed header.
type seg struct {
	start, hend, end int
	kind             int // 0 flush, 1 delim, 2 response-end, 4 data, -2 malformed header
	payload          []byte
	isErr            bool
	errText          string
	ch               int // sideband channel (0 outside sideband mode)
}

const (
	kFlush = 0
	kDelim = 1
	kREnd  = 2
	kData  = 4
	kBad   = -2
)

func (s *seg) wantLen() int {
	if s.kind == kData {
		return pktline.LenSize + len(s.payload)
	}
	return s.kind
}

// chunkReader serves data[:] in deliveries that never cross a split point.
// A Read returns at most len(p) bytes and at most the rest of the current
// chunk. The stream ends with endErr, either together with the last bytes or
// on a separate call.
type chunkReader struct {
	data        []byte
	pos         int
	cuts        []int // ascending absolute split points
	ci          int
	def         int // chunk size once cuts are exhausted; <=0 = the rest
	chunkEnd    int
	eofWithData bool
	endErr      error

	segs []seg // layout, for classifying short reads

	calls, short                                 int
	hdrSplit, paySplit, hdrPaySplit, dataWithEOF int
}

func (c *chunkReader) Read(p []byte) (int, error) {
	c.calls++
	if len(p) == 0 {
		return 0, nil
	}
	if c.pos >= len(c.data) {
		return 0, c.endErr
	}
	if c.pos >= c.chunkEnd {
		for c.ci < len(c.cuts) && c.cuts[c.ci] <= c.pos {
			c.ci++
		}
		switch {
		case c.ci < len(c.cuts):
			c.chunkEnd = c.cuts[c.ci]
			c.ci++
		case c.def > 0:
			c.chunkEnd = c.pos + c.def
		default:
			c.chunkEnd = len(c.data)
		}
		if c.chunkEnd > len(c.data) {
			c.chunkEnd = len(c.data)
		}
	}
	n := c.chunkEnd - c.pos
	if n > len(p) {
		n = len(p)
	}
	copy(p, c.data[c.pos:c.pos+n])
	c.pos += n
	if n < len(p) && c.pos < len(c.data) {
		c.short++
		c.classify(c.pos)
	}
	if c.pos == len(c.data) && c.eofWithData {
		c.dataWithEOF++
		return n, c.endErr
	}
	return n, nil
}

// classify records where a delivery that was shorter than requested ended.
func (c *chunkReader) classify(pos int) {
	i := sort.Search(len(c.segs), func(i int) bool { return c.segs[i].end > pos })
	if i >= len(c.segs) {
		return
	}
	s := &c.segs[i]
	switch {
	case pos <= s.start:
	case pos < s.hend:
		c.hdrSplit++
	case pos == s.hend:
		c.hdrPaySplit++
	default:
		c.paySplit++
	}
}

// ---------------------------------------------------------------- content

func fill(b []byte, seed uint64, class int) {
	const hexish = "00040008abcd00000001fff000020003"
	const text = "want 6ecf0ef2c2dffb796033e5a02219af86ec6584e5 side-band-64k ofs-delta agent=git/2.x\n"
	switch ((class % 5) + 5) % 5 {
	case 0:
		x := seed*0x9e3779b97f4a7c15 | 1
		var w [8]byte
		for i := 0; i < len(b); i += 8 {
			x ^= x << 13
			x ^= x >> 7
			x ^= x << 17
			binary.LittleEndian.PutUint64(w[:], x)
			copy(b[i:], w[:])
		}
	case 1:
		for i := range b {
			b[i] = '0'
		}
	case 2:
		o := int(seed % uint64(len(hexish)))
		for i := range b {
			b[i] = hexish[(i+o)%len(hexish)]
		}
	case 3:
		o := int(seed % uint64(len(text)))
		for i := range b {
			b[i] = text[(i+o)%len(text)]
		}
	case 4:
		for i := range b {
			b[i] = text[i%len(text)]
		}
		copy(b, "ERR ")
	}
}

func message(n int, seed uint64) string {
	const alpha = "abcdefghijklmnopqrstuvwxyz :/-_.0123456789"
	b := make([]byte, n)
	x := seed*0x9e3779b97f4a7c15 | 1
	for i := range b {
		x ^= x << 13
		x ^= x >> 7
		x ^= x << 17
		b[i] = alpha[(x>>20)%uint64(len(alpha))]
	}
	if n > 0 && b[0] == ' ' {
		b[0] = 'e'
	}
	if n > 0 && b[n-1] == ' ' {
		b[n-1] = 'r'
	}
	return string(b)
}

func clamp(v, lo, hi int) int {
	if v < lo {
		return lo
	}
	if v > hi {
		return hi
	}
	return v
}

// pktWireLen is the number of stream bytes one plan packet occupies.
func pktWireLen(k Pkt) int {
	switch k.K {
	case "flush", "delim", "rend", "bad":
		return 4
	case "err":
		return 4 + 4 + clamp(k.N, 0, 2000) + 1
	}
	n := clamp(k.N, 0, maxPayload+8)
	if n > maxPayload {
		return 0
	}
	return 4 + n
}

func sbMax(p *Plan) int {
	if p.SB64k {
		return sideband.MaxPackedSize64k - 5
	}
	return sideband.MaxPackedSize - 5
}

func sbOpN(o SBOp) int {
	switch o.Ch {
	case 3:
		return clamp(o.N, 1, 300)
	case 4, 5:
		return 0
	}
	return clamp(o.N, 0, 200000)
}

func sbOpWireLen(p *Plan, o SBOp) int {
	if o.Ch == 4 {
		return 4
	}
	if o.Ch == 5 {
		return 5
	}
	n, m := sbOpN(o), sbMax(p)
	frames := (n + m - 1) / m
	return n + 5*frames
}

// boundaries returns every packet start and header end of the plan's stream
// (computed arithmetically; Gen and Expand use it) and the stream length.
func boundaries(p *Plan) (starts, hends []int, total int) {
	if p.Mode == "sideband" {
		m := sbMax(p)
		for i, o := range p.Ops {
			if i >= maxOps {
				break
			}
			if o.Ch == 4 {
				starts, hends = append(starts, total), append(hends, total+4)
				total += 4
				continue
			}
			if o.Ch == 5 {
				starts, hends = append(starts, total), append(hends, total+4)
				total += 5
				continue
			}
			for n := sbOpN(o); n > 0; n -= m {
				k := n
				if k > m {
					k = m
				}
				starts, hends = append(starts, total), append(hends, total+4)
				total += 5 + k
			}
		}
		if p.Flush {
			starts, hends = append(starts, total), append(hends, total+4)
			total += 4
		}
		return
	}
	for i, k := range p.Pkts {
		if i >= maxPkts {
			break
		}
		l := pktWireLen(k)
		if l == 0 {
			continue
		}
		starts, hends = append(starts, total), append(hends, total+4)
		total += l
	}
	return
}

// ---------------------------------------------------------------- building the streams with the real writers

type run struct {
	p     *Plan
	out   *core.Outcome
	log   []string
	segs  []seg
	cr    *chunkReader
	trunc int // effective stream length
	full  int
}

func (r *run) logf(format string, a ...any) { r.log = append(r.log, fmt.Sprintf(format, a...)) }

func modelHeader(n int) string { return fmt.Sprintf("%04x", n) }

func (r *run) buildPkt() ([]byte, bool) {
	var w bytes.Buffer
	p := r.p
	for i, k := range p.Pkts {
		if i >= maxPkts || w.Len() > 1<<20 {
			break
		}
		start := w.Len()
		s := seg{start: start, hend: start + 4}
		var model []byte
		var werr error
		wn := -1
		switch k.K {
		case "flush":
			werr, s.kind, model = pktline.WriteFlush(&w), kFlush, []byte("0000")
		case "delim":
			werr, s.kind, model = pktline.WriteDelim(&w), kDelim, []byte("0001")
		case "rend":
			werr, s.kind, model = pktline.WriteResponseEnd(&w), kREnd, []byte("0002")
		case "bad":
			h := badHeaders[((k.N%len(badHeaders))+len(badHeaders))%len(badHeaders)]
			w.WriteString(h)
			s.kind, model = kBad, []byte(h)
		case "err":
			msg := message(clamp(k.N, 0, 2000), p.Seed+uint64(i)*131)
			if k.W%2 == 0 {
				wn, werr = pktline.WriteError(&w, errors.New(msg))
			} else {
				werr = (&pktline.ErrorLine{Text: msg}).Encode(&w)
			}
			s.kind = kData
			s.payload = []byte("ERR " + msg + "\n")
			s.isErr, s.errText = true, msg
			model = append([]byte(modelHeader(4+len(s.payload))), s.payload...)
			if wn >= 0 && wn != len(model) && werr == nil {
				r.out.Fail("C34|write|count-mismatch|none", "WriteError returned n=%d for a %d-byte packet", wn, len(model))
				return nil, false
			}
		default:
			n := clamp(k.N, 0, maxPayload+8)
			payload := make([]byte, n)
			fill(payload, p.Seed+uint64(i)*977, k.W/5)
			variant := ((k.W % 5) + 5) % 5
			if variant == 4 && n > 0 {
				payload[n-1] = '\n'
			}
			switch {
			case variant == 1:
				wn, werr = pktline.WriteString(&w, string(payload))
			case variant == 2:
				// Writef without arguments writes the format verbatim (through a
				// variable: vet rejects a non-constant format at a direct call)
				writef := pktline.Writef
				wn, werr = writef(&w, string(payload))
			case variant == 3:
				wn, werr = pktline.Writef(&w, "%s", payload)
			case variant == 4 && n > 0:
				wn, werr = pktline.Writeln(&w, string(payload[:n-1]))
			default:
				wn, werr = pktline.Write(&w, payload)
			}
			if n > maxPayload {
				// outside the quantifier: must be refused and leave no bytes behind
				if !errors.Is(werr, pktline.ErrPayloadTooLong) || w.Len() != start {
					r.out.Fail("C34|write|oversize-accepted|none", "Write of %d payload bytes: err=%v, %d bytes emitted", n, werr, w.Len()-start)
					return nil, false
				}
				r.out.Probe("oversize-rejected")
				r.logf("write oversize %d -> too-long", n)
				continue
			}
			s.kind, s.payload = kData, payload
			if bytes.HasPrefix(payload, []byte("ERR ")) {
				s.isErr, s.errText = true, string(bytes.TrimSpace(payload[4:]))
			}
			model = append([]byte(modelHeader(4+n)), payload...)
			if werr == nil && wn != len(model) {
				r.out.Fail("C34|write|count-mismatch|none", "Write returned n=%d for a %d-byte packet", wn, len(model))
				return nil, false
			}
			if n == maxPayload {
				r.out.Probe("max-payload")
			}
		}
		if werr != nil {
			r.out.Fail("C34|write|unexpected-error|none", "writer %q (payload %d) failed: %v", k.K, len(s.payload), werr)
			return nil, false
		}
		s.end = w.Len()
		if !bytes.Equal(w.Bytes()[start:], model) {
			r.out.Fail("C34|write|wire-mismatch|none", "packet %d (%s, payload %d) encoded as %d bytes starting %q, model has %d bytes starting %q",
				i, k.K, len(s.payload), s.end-start, head(w.Bytes()[start:]), len(model), head(model))
			return nil, false
		}
		r.logf("write %s %d", k.K, len(s.payload))
		r.segs = append(r.segs, s)
	}
	return w.Bytes(), true
}

// modelParseLen is the reference reading of a pkt-len: four lower-case hex digits.
func modelParseLen(b []byte) int {
	n := 0
	for _, c := range b {
		switch {
		case c >= '0' && c <= '9':
			n = n*16 + int(c-'0')
		case c >= 'a' && c <= 'f':
			n = n*16 + int(c-'a') + 10
		default:
			return -1
		}
	}
	return n
}

func head(b []byte) string {
	if len(b) > 12 {
		b = b[:12]
	}
	return string(b)
}

// buildSB muxes the plan's operations with the real Muxer.
func (r *run) buildSB() (stream, pack, prog []byte, ok bool) {
	var w bytes.Buffer
	p := r.p
	t := sideband.Sideband
	if p.SB64k {
		t = sideband.Sideband64k
	}
	m := sideband.NewMuxer(t, &w)
	max := sbMax(p)
	for i, o := range p.Ops {
		if i >= maxOps || w.Len() > 1<<20 {
			break
		}
		start := w.Len()
		if o.Ch == 4 {
			h := badHeaders[((o.N%len(badHeaders))+len(badHeaders))%len(badHeaders)]
			w.WriteString(h)
			r.segs = append(r.segs, seg{start: start, hend: start + 4, end: start + 4, kind: kBad})
			r.logf("inject bad header")
			continue
		}
		if o.Ch == 5 {
			kch := byte(1 + ((o.N-1)%2+2)%2)
			if _, err := pktline.Write(&w, []byte{kch}); err != nil {
				r.out.Fail("C34|write|unexpected-error|none", "Write(keepalive): %v", err)
				return nil, nil, nil, false
			}
			b := w.Bytes()
			r.segs = append(r.segs, seg{start: start, hend: start + 4, end: start + 5, kind: kData, payload: b[start+4 : start+5 : start+5], ch: int(kch)})
			r.out.Probe("sideband-empty-frame")
			r.logf("keepalive frame on channel %d", kch)
			continue
		}
		n := sbOpN(o)
		var data []byte
		ch := sideband.PackData
		switch o.Ch {
		case 2:
			ch = sideband.ProgressMessage
			data = make([]byte, n)
			fill(data, p.Seed+uint64(i)*31, 3)
		case 3:
			ch = sideband.ErrorMessage
			data = []byte(message(n, p.Seed+uint64(i)*17))
		default:
			data = make([]byte, n)
			fill(data, p.Seed+uint64(i)*53, int(p.Seed+uint64(i))%3)
		}
		var wn int
		var err error
		if ch == sideband.PackData && i%2 == 0 {
			wn, err = m.Write(data)
		} else {
			wn, err = m.WriteChannel(ch, data)
		}
		if err != nil || wn != n {
			r.out.Fail("C34|mux|unexpected-error|none", "WriteChannel(%d, %d bytes) = %d, %v", ch, n, wn, err)
			return nil, nil, nil, false
		}
		// reference decoding of what the Muxer emitted: any split into frames is
		// legal as long as every frame is hdr + channel byte + data, no frame
		// exceeds the sideband type's packet limit, and the data concatenates
		// to what was handed in
		rest := w.Bytes()[start:]
		limit := max + 5
		var joined []byte
		nf := 0
		for off := 0; off < len(rest); nf++ {
			fl := -1
			if len(rest)-off >= 5 {
				fl = modelParseLen(rest[off : off+4])
			}
			if fl < 5 || off+fl > len(rest) || rest[off+4] != byte(ch) {
				r.out.Fail("C34|mux|wire-mismatch|"+sbName(p), "WriteChannel(%d, %d bytes): frame %d at +%d starts %q (remaining %d bytes): not a sideband frame of this channel", ch, n, nf, off, head(rest[off:]), len(rest)-off)
				return nil, nil, nil, false
			}
			if fl > limit {
				r.out.Fail("C34|mux|frame-exceeds-max|"+sbName(p), "WriteChannel(%d, %d bytes): frame %d is a %d-byte packet, the limit is %d", ch, n, nf, fl, limit)
				return nil, nil, nil, false
			}
			joined = append(joined, rest[off+5:off+fl]...)
			fs := start + off
			r.segs = append(r.segs, seg{start: fs, hend: fs + 4, end: fs + fl, kind: kData, payload: rest[off+4 : off+fl : off+fl], ch: int(ch)})
			off += fl
		}
		if !bytes.Equal(joined, data) {
			r.out.Fail("C34|mux|wire-mismatch|"+sbName(p), "WriteChannel(%d, %d bytes): the %d frames carry %d bytes that differ from the input at %d", ch, n, nf, len(joined), firstDiff(joined, data))
			return nil, nil, nil, false
		}
		if nf > 1 {
			r.out.Probe("sideband-multi-frame-write")
		}
		switch ch {
		case sideband.PackData:
			pack = append(pack, data...)
		case sideband.ProgressMessage:
			prog = append(prog, data...)
		}
		r.logf("mux ch%d %d -> %d frames", ch, n, nf)
	}
	if p.Flush {
		start := w.Len()
		if err := pktline.WriteFlush(&w); err != nil {
			r.out.Fail("C34|write|unexpected-error|none", "WriteFlush: %v", err)
			return nil, nil, nil, false
		}
		r.segs = append(r.segs, seg{start: start, hend: start + 4, end: start + 4, kind: kFlush})
	}
	return w.Bytes(), pack, prog, true
}

func sbName(p *Plan) string {
	if p.SB64k {
		return "sideband-64k"
	}
	return "sideband"
}

// ---------------------------------------------------------------- the stream for one run

func (r *run) chunkClass() string {
	d := ""
	switch {
	case r.p.Delta < 0:
		d = "-1"
	case r.p.Delta > 0:
		d = "+1"
	}
	switch r.p.ChunkMode {
	case "one":
		return "1-byte-chunks"
	case "list":
		return "random-chunks"
	case "pkt":
		return "pkt-boundary" + d
	case "hdr":
		return "hdr-boundary" + d
	case "both":
		return "all-boundaries" + d
	}
	return "whole-stream"
}

func (r *run) newReader(stream []byte) *chunkReader {
	p := r.p
	r.full = len(stream)
	r.trunc = len(stream)
	cr := &chunkReader{segs: r.segs, eofWithData: p.EOFWithData, endErr: io.EOF}
	if p.TruncOn {
		r.trunc = clamp(p.Trunc, 0, len(stream))
		if p.TruncErr {
			cr.endErr = io.ErrUnexpectedEOF
		}
	}
	cr.data = stream[:r.trunc]
	d := clamp(p.Delta, -1, 1)
	var cuts []int
	switch p.ChunkMode {
	case "one":
		cr.def = 1
	case "list":
		pos := 0
		for i, c := range p.Chunks {
			if i >= 4096 {
				break
			}
			pos += clamp(c, 1, 1<<20)
			cuts = append(cuts, pos)
		}
		cr.def = p.DefChunk
	case "pkt":
		for _, s := range r.segs {
			cuts = append(cuts, s.end+d)
		}
	case "hdr":
		for _, s := range r.segs {
			cuts = append(cuts, s.hend+d)
		}
	case "both":
		for _, s := range r.segs {
			cuts = append(cuts, s.hend+d, s.end+d)
		}
	}
	sort.Ints(cuts)
	last := 0
	for _, c := range cuts {
		if c > last && c < len(cr.data) {
			cr.cuts = append(cr.cuts, c)
			last = c
		}
	}
	r.cr = cr
	return cr
}

func errKind(err error) string {
	var el *pktline.ErrorLine
	switch {
	case err == nil:
		return "ok"
	case errors.As(err, &el):
		return "errline"
	case errors.Is(err, io.EOF):
		return "eof"
	case errors.Is(err, io.ErrUnexpectedEOF):
		return "ueof"
	case errors.Is(err, pktline.ErrInvalidPktLen):
		return "invalid-len"
	case errors.Is(err, bufio.ErrBufferFull):
		return "buffer-full"
	case errors.Is(err, sideband.ErrMaxPackedExceeded):
		return "max-packed"
	}
	return "other"
}

func (r *run) truncClass(s *seg) string {
	switch {
	case r.trunc < s.hend:
		return "truncated-in-header"
	case r.trunc == s.hend:
		return "truncated-after-header"
	}
	return "truncated-in-payload"
}

// ---------------------------------------------------------------- pkt mode

func apiName(a string) string {
	switch a {
	case "read", "readline", "scanner":
		return a
	case "peek":
		return "peekline"
	}
	return "read"
}

func (r *run) execPkt() {
	p, out := r.p, r.out
	stream, ok := r.buildPkt()
	if !ok {
		return
	}
	cr := r.newReader(stream)
	apis := p.APIs
	if len(apis) == 0 {
		apis = []string{"read"}
	}
	needBufio := p.Bufio
	for _, a := range apis {
		if a == "peek" {
			needBufio = true
		}
	}
	var src io.Reader = cr
	var br *bufio.Reader
	peekBuf := pktline.MaxSize
	if p.PeekBuf > 0 {
		peekBuf = clamp(p.PeekBuf, 16, pktline.MaxSize)
	}
	if needBufio {
		br = bufio.NewReaderSize(cr, peekBuf)
		src = br
	}
	consumed := func() int {
		if br != nil {
			return cr.pos - br.Buffered()
		}
		return cr.pos
	}
	var sc *pktline.Scanner
	var callerBuf []byte
	bi := 0
	class := r.chunkClass()
	baseClass := class
	afterSmall, afterBad := false, false
	fail := func(api, comp, format string, a ...any) {
		out.Fail("C34|"+api+"|"+comp+"|"+class, format+" [chunking %s, eof-with-data=%v]", append(a, baseClass, p.EOFWithData)...)
	}
	// compare decides one successful-looking result against the packet written.
	compare := func(api string, i int, s *seg, l int, payload []byte, havePayload bool, err error) bool {
		var el *pktline.ErrorLine
		isEL := errors.As(err, &el)
		if err != nil && !isEL {
			fail(api, "unexpected-error", "packet %d (kind %d, payload %d bytes): %v", i, s.kind, len(s.payload), err)
			return false
		}
		want := s.wantLen()
		if l != want {
			comp := "length-mismatch"
			if l < 4 || want < 4 {
				comp = "kind-mismatch"
			}
			fail(api, comp, "packet %d: got length %d, written packet has length %d", i, l, want)
			return false
		}
		if havePayload && !bytes.Equal(payload, s.payload) {
			fail(api, "payload-mismatch", "packet %d: payload of %d bytes differs from the %d bytes written (first difference at %d)", i, len(payload), len(s.payload), firstDiff(payload, s.payload))
			return false
		}
		if s.isErr != isEL {
			fail(api, "errorline-mismatch", "packet %d: error-line expected=%v, got err=%v", i, s.isErr, err)
			return false
		}
		if isEL && el.Text != s.errText {
			fail(api, "errorline-mismatch", "packet %d: ErrorLine text %q, written %q", i, el.Text, s.errText)
			return false
		}
		return true
	}

	for i := 0; i <= len(r.segs) && out.Signature == ""; i++ {
		api := apis[i%len(apis)]
		var s *seg
		if i < len(r.segs) {
			s = &r.segs[i]
		}
		// where is this packet relative to the end of the (possibly truncated) stream?
		state := "complete"
		switch {
		case s == nil || s.start >= r.trunc:
			state = "end"
		case s.end > r.trunc:
			state = "partial"
		}
		switch {
		case state == "partial":
			class = r.truncClass(s)
		case state == "end" && p.TruncOn && r.trunc < r.full:
			class = "truncated-at-boundary"
		case s != nil && s.kind == kBad:
			class = "malformed-length"
		case afterBad:
			class = "after-malformed-length"
		case afterSmall:
			class = "after-small-caller-buffer"
		default:
			class = baseClass
		}
		pos0 := consumed()
		if pos0 != min(r.trunc, segStart(r.segs, i, r.full)) {
			fail(apiName(api), "stream-position", "before packet %d the reader has consumed %d bytes, packet starts at %d", i, pos0, segStart(r.segs, i, r.full))
			break
		}

		// ---- the call that meets the end of the stream or a cut
		if state != "complete" {
			var err error
			var l int
			okCall := false
			name := apiName(api)
			switch api {
			case "readline":
				l, _, err = pktline.ReadLine(src)
				okCall = err == nil
			case "peek":
				l, _, err = pktline.PeekLine(br)
				okCall = err == nil
			case "scanner":
				if sc == nil {
					sc = pktline.NewScanner(src)
				}
				okCall = sc.Scan()
				err, l = sc.Err(), sc.Len()
				if !okCall && err == nil {
					err = io.EOF // the Scanner's way of saying io.EOF
				}
			default:
				if callerBuf == nil {
					callerBuf = make([]byte, pktline.MaxSize)
				}
				bs := pktline.MaxSize
				if len(p.Bufs) > 0 {
					if v := p.Bufs[bi%len(p.Bufs)]; v >= pktline.LenSize {
						bs = clamp(v, pktline.LenSize, pktline.MaxSize)
					}
				}
				l, err = pktline.Read(src, callerBuf[:bs])
				okCall = err == nil
			}
			r.logf("%d %s at-%s -> %d %s", i, name, state, l, errKind(err))
			var el *pktline.ErrorLine
			if okCall || errors.As(err, &el) {
				fail(name, "truncated-packet-accepted", "stream of %d bytes cut at %d: the call for packet %d [%d,%d) returned length %d, err=%v", r.full, r.trunc, i, segStart(r.segs, i, r.full), segEnd(r.segs, i, r.full), l, err)
				break
			}
			switch {
			case state == "end" && cr.endErr == io.EOF:
				if !errors.Is(err, io.EOF) {
					fail(name, "end-of-stream-not-eof", "clean end of stream after %d packets reported as %v", i, err)
				}
				out.Probe("eof-at-boundary")
			case state == "end":
				// the transport itself failed (io.ErrUnexpectedEOF) on a packet boundary:
				// how that is reported is outside the statement; counted only
				if errors.Is(err, io.EOF) {
					out.Probe("truncation-reported-as-clean-eof:" + name + ":transport-error-at-boundary")
				}
			default: // partial
				where := strings.TrimPrefix(class, "truncated-")
				switch {
				case errors.Is(err, io.EOF):
					// clean end of stream for a cut inside a packet: not judged, see the file header
					out.Probe("truncation-reported-as-clean-eof:" + name + ":" + where)
				case r.trunc < s.hend && api != "peek" && !errors.Is(err, pktline.ErrInvalidPktLen):
					// Read documents the too-short header as an ErrInvalidPktLen-class error
					fail(name, "wrong-error-class", "stream cut at byte %d inside the header of packet %d [%d,%d): err=%v, want ErrInvalidPktLen", r.trunc, i, s.start, s.end, err)
				default:
					out.Probe("truncation-reported-as-error")
				}
			}
			if p.TruncOn && r.trunc < r.full {
				out.Probe("truncated")
				out.Faults[class]++
			}
			break
		}

		// ---- a complete packet (or malformed header)
		switch api {
		case "readline":
			l, pl, err := pktline.ReadLine(src)
			r.logf("%d readline -> %d %s", i, l, errKind(err))
			if s.kind == kBad {
				r.checkBad("readline", i, err, consumed(), pos0+4, fail)
				afterBad, sc = true, nil
				continue
			}
			if !compare("readline", i, s, l, pl, s.kind == kData, err) {
				break
			}
			if s.kind != kData && pl != nil {
				fail("readline", "payload-mismatch", "packet %d: special packet returned %d payload bytes", i, len(pl))
			}
		case "peek":
			rounds := 1
			if p.PeekTwice {
				rounds = 2
			}
			peekFits := s.end-s.start <= peekBuf
			for k := 0; k < rounds && out.Signature == ""; k++ {
				l, pl, err := pktline.PeekLine(br)
				r.logf("%d peekline -> %d %s", i, l, errKind(err))
				if consumed() != pos0 {
					fail("peekline", "consumed-bytes", "PeekLine consumed %d bytes of packet %d", consumed()-pos0, i)
					break
				}
				if s.kind == kBad {
					r.checkBad("peekline", i, err, consumed(), pos0, fail)
					continue
				}
				if !peekFits {
					// the peeker cannot hold the packet: any error is fine, a success is not
					if err == nil {
						fail("peekline", "payload-mismatch", "packet %d of %d bytes returned from a %d-byte peek buffer", i, s.end-s.start, peekBuf)
					}
					out.Probe("peek-buffer-full")
					continue
				}
				if !compare("peekline", i, s, l, pl, s.kind == kData, err) {
					break
				}
			}
			if out.Signature != "" {
				break
			}
			if s.kind == kBad {
				if _, err := br.Discard(4); err != nil {
					fail("peekline", "stream-position", "cannot skip the malformed header: %v", err)
				}
				afterBad, sc = true, nil
				continue
			}
			// then consume it
			if i%2 == 0 {
				l, pl, err := pktline.ReadLine(src)
				r.logf("%d peek-then-readline -> %d %s", i, l, errKind(err))
				compare("peek-then-read", i, s, l, pl, s.kind == kData, err)
			} else {
				if callerBuf == nil {
					callerBuf = make([]byte, pktline.MaxSize)
				}
				l, err := pktline.Read(src, callerBuf)
				r.logf("%d peek-then-read -> %d %s", i, l, errKind(err))
				var pl []byte
				if l >= 4 && l <= len(callerBuf) {
					pl = callerBuf[4:l]
				}
				compare("peek-then-read", i, s, l, pl, s.kind == kData, err)
			}
		case "scanner":
			if sc == nil {
				sc = pktline.NewScanner(src)
			}
			okScan := sc.Scan()
			err := sc.Err()
			r.logf("%d scan -> %v %d %s", i, okScan, sc.Len(), errKind(err))
			if s.kind == kBad {
				if okScan {
					fail("scanner", "malformed-accepted", "Scan returned true on header %q", head(stream[s.start:s.end]))
					break
				}
				r.checkBad("scanner", i, err, consumed(), pos0+4, fail)
				afterBad, sc = true, nil // "scanning stops at the first error": continue with a fresh Scanner
				continue
			}
			if !okScan && err == nil {
				fail("scanner", "premature-end", "Scan reported clean end of stream at packet %d of %d", i, len(r.segs))
				break
			}
			if !compare("scanner", i, s, sc.Len(), sc.Bytes(), s.kind == kData, err) {
				break
			}
			if okScan == s.isErr {
				fail("scanner", "errorline-mismatch", "packet %d: Scan()=%v, error-line expected=%v, Err()=%v", i, okScan, s.isErr, err)
				break
			}
			if s.kind != kData && sc.Bytes() != nil {
				fail("scanner", "payload-mismatch", "packet %d: special packet has Bytes() of %d bytes", i, len(sc.Bytes()))
			}
		default: // read
			if callerBuf == nil {
				callerBuf = make([]byte, pktline.MaxSize)
			}
			bs := pktline.MaxSize
			if len(p.Bufs) > 0 {
				if v := p.Bufs[bi%len(p.Bufs)]; v > 0 {
					bs = clamp(v, 1, pktline.MaxSize)
				}
				bi++
			}
			if bs < pktline.LenSize {
				// doc: "If p is less than 4 bytes, Read returns ErrInvalidPktLen" — and nothing is consumed
				l, err := pktline.Read(src, callerBuf[:bs])
				r.logf("%d read[%d] -> %d %s", i, bs, l, errKind(err))
				if !errors.Is(err, pktline.ErrInvalidPktLen) {
					fail("read", "wrong-error-class", "Read with a %d-byte buffer: err=%v, want ErrInvalidPktLen", bs, err)
					break
				}
				if consumed() != pos0 {
					fail("read", "consumed-bytes", "Read with a %d-byte buffer consumed %d bytes", bs, consumed()-pos0)
					break
				}
				out.Probe("tiny-caller-buffer")
				bs = pktline.MaxSize
			}
			l, err := pktline.Read(src, callerBuf[:bs])
			r.logf("%d read[%d] -> %d %s", i, bs, l, errKind(err))
			if s.kind == kBad {
				r.checkBad("read", i, err, consumed(), pos0+4, fail)
				afterBad, sc = true, nil
				continue
			}
			if s.end-s.start > bs {
				// doc: "If p cannot hold the entire packet, Read discards the packet and returns
				// io.ErrUnexpectedEOF; the stream is left positioned after the packet"
				class = "small-caller-buffer"
				if err == nil || l >= 0 {
					fail("read", "truncated-packet-accepted", "packet %d of %d bytes read into a %d-byte buffer returned length %d, err=%v", i, s.end-s.start, bs, l, err)
					break
				}
				if !errors.Is(err, io.ErrUnexpectedEOF) {
					fail("read", "wrong-error-class", "packet %d of %d bytes, %d-byte buffer: err=%v, want io.ErrUnexpectedEOF", i, s.end-s.start, bs, err)
					break
				}
				if consumed() != s.end {
					fail("read", "desync-after-small-buffer", "packet %d [%d,%d) discarded for a %d-byte buffer, stream now at %d", i, s.start, s.end, bs, consumed())
					break
				}
				out.Probe("small-caller-buffer")
				afterSmall = true
				continue
			}
			var pl []byte
			if l >= 4 && l <= bs {
				pl = callerBuf[4:l]
			}
			if !compare("read", i, s, l, pl, s.kind == kData, err) {
				break
			}
		}
		if out.Signature != "" {
			break
		}
		if consumed() != s.end {
			fail(apiName(api), "stream-position", "after packet %d [%d,%d) the reader has consumed %d bytes", i, s.start, s.end, consumed())
			break
		}
		if afterSmall {
			out.Probe("resync-after-small-buffer")
			afterSmall = false
		}
		if afterBad {
			out.Probe("resync-after-malformed")
			afterBad = false
		}
		out.Probe("packet-roundtrip")
	}
}

func segStart(segs []seg, i, full int) int {
	if i < len(segs) {
		return segs[i].start
	}
	return full
}

func segEnd(segs []seg, i, full int) int {
	if i < len(segs) {
		return segs[i].end
	}
	return full
}

func firstDiff(a, b []byte) int {
	n := min(len(a), len(b))
	for i := 0; i < n; i++ {
		if a[i] != b[i] {
			return i
		}
	}
	return n
}

// checkBad judges the call that met a malformed length header.
func (r *run) checkBad(api string, i int, err error, pos, wantPos int, fail func(api, comp, format string, a ...any)) {
	if err == nil {
		fail(api, "malformed-accepted", "malformed header %q at packet %d accepted", head(r.cr.data[r.segs[i].start:]), i)
		return
	}
	if !errors.Is(err, pktline.ErrInvalidPktLen) {
		fail(api, "wrong-error-class", "malformed header %q at packet %d: err=%v, want ErrInvalidPktLen", head(r.cr.data[r.segs[i].start:r.segs[i].end]), i, err)
		return
	}
	if pos != wantPos {
		fail(api, "consumed-bytes", "rejecting the malformed header at %d left the stream at %d, want %d", r.segs[i].start, pos, wantPos)
		return
	}
	r.out.Probe("malformed-rejected")
	r.out.Faults["malformed-length"]++
}

// ---------------------------------------------------------------- sideband mode

type progressSink struct{ b []byte }

func (s *progressSink) Write(p []byte) (int, error) {
	s.b = append(s.b, p...) // the slice handed in points into the Scanner's buffer: copy
	return len(p), nil
}

func (r *run) execSideband() {
	p, out := r.p, r.out
	stream, pack, prog, ok := r.buildSB()
	if !ok {
		return
	}
	cr := r.newReader(stream)
	t := sideband.Sideband
	if p.SB64k {
		t = sideband.Sideband64k
	}
	class := r.chunkClass()
	baseClass := class
	fail := func(comp, format string, a ...any) {
		out.Fail("C34|demux|"+comp+"|"+class, format+" [%s, chunking %s, eof-with-data=%v]", append(a, sbName(p), baseClass, p.EOFWithData)...)
	}

	// what the frames that are completely inside the stream amount to
	var wantPack, wantProg int
	terminal, errMsg := "end", ""
	var termSeg *seg
	maxFrame := 0
	for i := range r.segs {
		s := &r.segs[i]
		if s.start >= r.trunc {
			break
		}
		if s.end > r.trunc {
			terminal, termSeg = "partial", s
			break
		}
		if s.kind == kBad {
			terminal, termSeg = "bad", s
			break
		}
		if s.kind == kFlush {
			terminal, termSeg = "flush", s
			break
		}
		if s.ch == int(sideband.ErrorMessage) {
			terminal, termSeg, errMsg = "errmsg", s, string(s.payload[1:])
			// a long message spans several frames; the first one ends the stream
			break
		}
		if s.ch == int(sideband.PackData) {
			wantPack += len(s.payload) - 1
			if len(s.payload) > maxFrame {
				maxFrame = len(s.payload)
			}
		} else {
			wantProg += len(s.payload) - 1
		}
	}
	switch terminal {
	case "partial":
		class = r.truncClass(termSeg)
	case "bad":
		class = "malformed-length"
	case "errmsg":
		class = "channel-3"
	case "end":
		if p.TruncOn && r.trunc < r.full {
			class = "truncated-at-boundary"
		}
	}

	d := sideband.NewDemuxer(t, cr)
	sink := &progressSink{}
	if p.Progress {
		d.Progress = sink
	}
	rbufs := p.RBufs
	if len(rbufs) == 0 {
		rbufs = []int{4096}
	}
	// Demuxer.doRead clones the undelivered rest of a frame on every call, so
	// very small buffers on very large frames cost quadratic time; keep at
	// most 256 reads per frame (performance clamp, not part of the property).
	minBuf := 1
	if maxFrame/256 > minBuf {
		minBuf = maxFrame / 256
	}
	buf := make([]byte, 0, 4096)
	got, stalls := 0, 0
	var final error
	for call := 0; ; call++ {
		sz := clamp(rbufs[call%len(rbufs)], minBuf, 1<<18)
		if sz < 1 {
			sz = 1
		}
		if cap(buf) < sz {
			buf = make([]byte, sz)
		}
		b := buf[:sz]
		n, err := d.Read(b)
		r.logf("demux.Read[%d] -> %d %s", sz, n, errKind(err))
		if n < 0 || n > sz {
			fail("read-count", "Read returned n=%d for a %d-byte buffer", n, sz)
			return
		}
		if got+n > len(pack) || !bytes.Equal(b[:n], pack[got:got+n]) {
			end := min(got+n, len(pack))
			fail("pack-bytes-mismatch", "after %d pack bytes Read returned %d bytes that are not the next bytes written (first difference at +%d; %d pack bytes were written)", got, n, firstDiff(b[:min(n, end-got)], pack[got:end]), len(pack))
			return
		}
		got += n
		if len(sink.b) > len(prog) || !bytes.Equal(sink.b, prog[:len(sink.b)]) {
			fail("progress-bytes-mismatch", "progress writer holds %d bytes that are not a prefix of the %d progress bytes written (first difference at %d)", len(sink.b), len(prog), firstDiff(sink.b, prog))
			return
		}
		if n < sz && n > 0 && err == nil {
			out.Probe("demux-short-read-nil")
		}
		if sz < maxFrame {
			out.Probe("demux-pending")
		}
		if err != nil {
			final = err
			break
		}
		if n == 0 {
			stalls++
			if stalls > 64 {
				fail("stalled", "Read returned (0, nil) %d times in a row", stalls)
				return
			}
		} else {
			stalls = 0
		}
	}
	// the end of the demultiplexed stream
	if got < wantPack {
		comp := "pack-bytes-lost"
		fail(comp, "stream ended (%s, err=%v) after %d pack bytes; %d were carried by complete frames before that point", terminal, final, got, wantPack)
		return
	}
	if terminal != "partial" && got != wantPack {
		fail("pack-bytes-mismatch", "stream ended (%s) after %d pack bytes, expected exactly %d", terminal, got, wantPack)
		return
	}
	if p.Progress {
		if len(sink.b) < wantProg || (terminal != "partial" && len(sink.b) != wantProg) {
			fail("progress-bytes-lost", "stream ended (%s, err=%v) with %d progress bytes delivered, %d were carried by complete frames", terminal, final, len(sink.b), wantProg)
			return
		}
	}
	switch terminal {
	case "flush":
		if !errors.Is(final, io.EOF) {
			fail("unexpected-error", "flush after the data reported as %v, want io.EOF", final)
		}
		out.Probe("demux-flush-eof")
	case "end":
		if cr.endErr == io.EOF {
			if !errors.Is(final, io.EOF) {
				fail("unexpected-error", "end of stream at a frame boundary reported as %v", final)
			}
			out.Probe("eof-at-boundary")
		} else if errors.Is(final, io.EOF) {
			out.Probe("truncation-reported-as-clean-eof:demux:transport-error-at-boundary")
		}
	case "partial":
		// how the cut is reported is not judged (file header); what was delivered was judged above
		switch {
		case errors.Is(final, io.EOF):
			out.Probe("truncation-reported-as-clean-eof:demux:" + strings.TrimPrefix(class, "truncated-"))
		case r.trunc < termSeg.hend && !errors.Is(final, pktline.ErrInvalidPktLen):
			fail("wrong-error-class", "stream cut at byte %d inside the header of frame [%d,%d): err=%v, want ErrInvalidPktLen", r.trunc, termSeg.start, termSeg.end, final)
		default:
			out.Probe("truncation-reported-as-error")
		}
	case "bad":
		if !errors.Is(final, pktline.ErrInvalidPktLen) {
			fail("wrong-error-class", "malformed header in the sideband stream reported as %v", final)
		} else {
			out.Probe("malformed-rejected")
			out.Faults["malformed-length"]++
		}
	case "errmsg":
		if errors.Is(final, io.EOF) || !strings.Contains(final.Error(), errMsg) {
			fail("error-channel-lost", "channel-3 message %q surfaced as %v", errMsg, final)
		}
		out.Probe("channel3-error")
	}
	if p.TruncOn && r.trunc < r.full && (terminal == "partial" || terminal == "end") {
		out.Probe("truncated")
		out.Faults[class]++
	}
	if out.Signature == "" {
		out.Probe("sideband-roundtrip")
	}
}

// ---------------------------------------------------------------- Exec

func execPlan(t *testing.T, pa any) (out core.Outcome) {
	p := pa.(*Plan)
	out.Faults = map[string]int{}
	r := &run{p: p, out: &out}
	defer func() {
		// go-git code must not panic on any stream; a panic is a finding, not a crash of the worker
		if rec := recover(); rec != nil {
			out.Fail("C34|"+p.Mode+"|panic|"+r.chunkClass(), "panic: %v", rec)
		}
		r.finish()
	}()
	if p.Mode == "sideband" {
		r.execSideband()
	} else {
		r.execPkt()
	}
	return out
}

func (r *run) finish() {
	out := r.out
	if cr := r.cr; cr != nil {
		r.logf("stream len=%d served=%d reads=%d short=%d hdr-split=%d pay-split=%d hdrpay-split=%d data+eof=%d",
			len(cr.data), cr.pos, cr.calls, cr.short, cr.hdrSplit, cr.paySplit, cr.hdrPaySplit, cr.dataWithEOF)
		split := "header-split"
		psplit := "payload-split"
		if r.p.Mode == "sideband" {
			split, psplit = "frame-header-split", "frame-split-across-deliveries"
		}
		out.ProbeN(split, cr.hdrSplit)
		out.ProbeN(psplit, cr.paySplit)
		out.ProbeN("split-between-header-and-payload", cr.hdrPaySplit)
		out.ProbeN("data-with-eof", cr.dataWithEOF)
		out.NonTrivial = cr.hdrSplit+cr.paySplit+cr.hdrPaySplit > 0
		out.Steps = cr.calls + len(r.log)
		out.StateHash = core.HashStrings([]string{fmt.Sprint(cr.pos, len(r.segs), out.Signature)})
	}
	out.LogHash = core.HashStrings(r.log)
	tr := r.log
	if len(tr) > 300 {
		tr = append(append(append([]string{}, tr[:100]...), fmt.Sprintf("... %d lines ...", len(tr)-300)), tr[len(tr)-200:]...)
	}
	out.Trace = tr
	if len(out.Faults) == 0 {
		out.Faults = nil
	}
}

// ---------------------------------------------------------------- Gen / Expand

func genLen(r *core.Rand, big *int) int {
	x := r.Intn(100)
	switch {
	case x < 10:
		return 0
	case x < 20:
		return 1
	case x < 56:
		return r.Range(2, 40)
	case x < 72:
		return r.Range(41, 1200)
	case x < 78:
		return r.Range(4086, 4100)
	}
	if *big <= 0 {
		return r.Range(2, 300)
	}
	*big--
	switch {
	case x < 80:
		return r.Range(maxPayload+1, maxPayload+6) // refused by the writer
	case x < 93:
		return r.Pick2(maxPayload, maxPayload, maxPayload-1, maxPayload-2, maxPayload-r.Intn(600), 65000, 32768)
	}
	return r.Range(1201, 30000)
}

func genStream(r *core.Rand, p *Plan) {
	p.ChunkMode = r.Pick("one", "list", "list", "pkt", "hdr", "both", "whole")
	p.Delta = r.Pick2(-1, 0, 1)
	p.EOFWithData = r.Bool()
	if p.ChunkMode == "list" {
		n := r.Intn(13)
		for i := 0; i < n; i++ {
			switch r.Intn(4) {
			case 0:
				p.Chunks = append(p.Chunks, r.Range(1, 5))
			case 1:
				p.Chunks = append(p.Chunks, r.Range(1, 64))
			case 2:
				p.Chunks = append(p.Chunks, r.Range(1, 5000))
			default:
				p.Chunks = append(p.Chunks, r.Pick2(1, 2, 3, 4, 5, 8, 9))
			}
		}
		p.DefChunk = r.Pick2(0, 1, 2, 3, 4, 5, 7, 16, 100, 1000, 4096, 32768, 65519, 65520, 65521)
	}
	starts, hends, total := boundaries(p)
	if total > 0 && r.Chance(1, 4) {
		p.TruncOn = true
		p.TruncErr = r.Chance(1, 3)
		switch r.Intn(3) {
		case 0:
			p.Trunc = r.Intn(total)
		case 1:
			p.Trunc = clamp(starts[r.Intn(len(starts))]+r.Pick2(-1, 0, 1), 0, total-1)
		default:
			p.Trunc = clamp(hends[r.Intn(len(hends))]+r.Pick2(-1, 0, 1, 2), 0, total-1)
		}
	} else if r.Chance(1, 2) {
		p.EnumTrunc = true
		p.TruncErr = r.Chance(1, 4)
	}
}

func genPlan(r *core.Rand, tier string) any {
	p := &Plan{Seed: r.Uint64() % 100000}
	thorough := tier == "thorough"
	if r.Chance(1, 3) {
		p.Mode = "sideband"
		p.SB64k = r.Bool()
		p.Progress = r.Chance(5, 6)
		p.Flush = r.Chance(4, 5)
		m := sbMax(p)
		nb := r.Pick2(1, 1, 2, 3, 4)
		small := false
		for i := 0; i < nb; i++ {
			v := r.Pick2(1, 2, 3, 5, 16, 100, m-1, m, m+1, m+5, 1000, 4096, 65519, 65520, 70000, r.Range(1, 300), r.Range(1, 5000))
			if v < 64 {
				small = true
			}
			p.RBufs = append(p.RBufs, v)
		}
		nops := r.Intn(9)
		if thorough {
			nops = r.Intn(16)
		}
		big := 2
		usedErr := false
		for i := 0; i < nops; i++ {
			o := SBOp{Ch: 1}
			x := r.Intn(100)
			switch {
			case x < 55:
			case x < 90:
				o.Ch = 2
			case x < 96 && !usedErr:
				o.Ch, usedErr = 3, true
			case x >= 96:
				o.Ch = 4
				o.N = r.Intn(len(badHeaders))
			}
			if (o.Ch == 1 || o.Ch == 2) && r.Chance(1, 12) {
				// a frame that is only the channel byte: git's upload-pack keepalive ("0005\x01"), which go-git's
				// own packet writer produces for a one-byte payload; the Muxer never emits one
				o.N = o.Ch
				o.Ch = 5
			}
			if o.Ch == 1 || o.Ch == 2 {
				y := r.Intn(100)
				switch {
				case y < 8:
					o.N = 0
				case y < 16:
					o.N = 1
				case y < 50:
					o.N = r.Range(2, 200)
				case y < 70:
					o.N = r.Pick2(994, 995, 996, 999, 1000, 1001, 1990, 1991, 2985) + r.Pick2(0, 0, 1)
				case y < 80:
					o.N = r.Range(200, 5000)
				default:
					if big > 0 && !(small && p.SB64k) {
						big--
						o.N = r.Pick2(m-1, m, m+1, 2*m, 2*m+1, 3*m-1, 65515, 65516, 65520, 131031, r.Range(5000, 140000))
					} else {
						o.N = r.Range(2, 2500)
					}
				}
			}
			if o.Ch == 3 {
				o.N = r.Range(1, 80)
			}
			p.Ops = append(p.Ops, o)
		}
		genStream(r, p)
		return p
	}

	p.Mode = "pkt"
	n := r.Intn(9)
	if thorough {
		n = r.Intn(20)
	}
	big := 2
	if thorough {
		big = 4
	}
	for i := 0; i < n; i++ {
		k := Pkt{W: r.Intn(25)}
		x := r.Intn(100)
		switch {
		case x < 58:
			k.K = "data"
			k.N = genLen(r, &big)
		case x < 70:
			k.K, k.W = "flush", 0
		case x < 78:
			k.K, k.W = "delim", 0
		case x < 86:
			k.K, k.W = "rend", 0
		default:
			k.K = "err"
			k.N = r.Pick2(0, 1, r.Range(2, 60), r.Range(2, 60), r.Range(60, 1500))
		}
		p.Pkts = append(p.Pkts, k)
	}
	if r.Chance(1, 4) {
		at := r.Intn(len(p.Pkts) + 1)
		bad := Pkt{K: "bad", N: r.Intn(len(badHeaders))}
		p.Pkts = append(p.Pkts[:at], append([]Pkt{bad}, p.Pkts[at:]...)...)
	}
	if r.Chance(3, 5) {
		p.APIs = []string{r.Pick("read", "readline", "peek", "scanner")}
	} else {
		for i, k := 0, r.Range(2, 5); i < k; i++ {
			p.APIs = append(p.APIs, r.Pick("read", "readline", "peek", "scanner"))
		}
	}
	p.Bufio = r.Chance(1, 4)
	p.PeekBuf = r.Pick2(0, 0, 0, 0, 4096, 4096, 64, 16)
	p.PeekTwice = r.Chance(1, 3)
	for i, k := 0, r.Range(1, 4); i < k; i++ {
		v := 0
		switch r.Intn(12) {
		case 0, 1, 2:
		case 3, 4:
			v = 4
		case 5:
			v = r.Range(5, 16)
		case 6, 7:
			if len(p.Pkts) > 0 {
				v = pktWireLen(p.Pkts[r.Intn(len(p.Pkts))]) + r.Pick2(-1, 0, 1)
			}
		case 8:
			v = r.Range(17, 1200)
		case 9:
			v = r.Pick2(65519, 65520, 65516, 4096)
		case 10:
			v = r.Pick2(1, 2, 3, 4, 4, 5)
		default:
			v = r.Range(4, 70)
		}
		p.Bufs = append(p.Bufs, v)
	}
	genStream(r, p)
	return p
}

// expand enumerates EVERY truncation offset of a short encoded stream.
func expand(t *testing.T, pa any, tier string) []any {
	p := pa.(*Plan)
	if !p.EnumTrunc || p.TruncOn {
		return []any{p}
	}
	limit := 300
	if tier == "thorough" {
		limit = 1500
	}
	_, _, total := boundaries(p)
	if total == 0 || total > limit {
		return []any{p}
	}
	out := []any{p}
	for off := 0; off < total; off++ {
		c := *p
		c.EnumTrunc, c.TruncOn, c.Trunc = false, true, off
		out = append(out, &c)
	}
	return out
}

func TestCheck(t *testing.T) {
	core.Main(t, core.Check{
		ID:    "C34",
		Level: "exploration",
		Rule: "plan = (a) a pkt-line sequence of 0-8 packets (quick; 0-19 thorough): data with payload lengths biased to 0, 1, small, the bufio edge 4092 and the limits 65514..65516 (+ refused 65517..), " +
			"flush/delim/response-end, ERR lines, optionally one malformed 4-byte header, written with Write/WriteString/Writef/Writeln/WriteError/ErrorLine.Encode/WriteFlush/WriteDelim/WriteResponseEnd, " +
			"read back per packet with Read (caller buffers 1..65520), ReadLine, PeekLine(+Read) over bufio, Scanner; or (b) a sideband / sideband-64k stream from 0-8 Muxer.Write/WriteChannel calls " +
			"(sizes 0..3 frames, channels 1/2/3, optional malformed header, optional flush) demultiplexed with Demuxer.Read buffers from 1 byte to 70000 with a Progress writer; " +
			"x a stream split plan (1-byte, generated chunk list + default size, cuts at/before/after every packet or header boundary, whole stream), EOF with or after the last bytes, " +
			"and optionally a truncation offset; streams <= 300 bytes (1500 thorough) with enum_trunc are expanded into one run per truncation offset; " +
			"non-trivial = at least one delivery of the stream ended strictly inside a packet (short read in header or payload); distinct = distinct expanded plans",
		Assumptions: []string{
			"the transport is an in-order lossless byte stream: it may split bytes anywhere and end early, it never reorders, duplicates or corrupts",
			"a stream that ends exactly on a packet boundary is a legal end of stream for the pkt-line layer (io.EOF required there, also for the Demuxer without a flush)",
			"the statement does not say how a truncated stream is reported: a clean io.EOF / Scanner end / Demuxer io.EOF for a cut inside a packet is counted (probe truncation-reported-as-clean-eof:<api>:<where>), not judged; what is returned successfully must still be an exact prefix of what was written",
			"after a malformed length only bare 4-byte malformed headers are followed by further packets (no resynchronisation over an unknown payload is demanded)",
		},
		Real: []string{"pktline.Write/WriteString/Writef/Writeln/WriteError/WriteFlush/WriteDelim/WriteResponseEnd, ErrorLine.Encode", "pktline.Read/ReadLine/PeekLine/ParseLength", "pktline.Scanner",
			"sideband.Muxer.Write/WriteChannel", "sideband.Demuxer.Read (pending, Progress)", "bufio.Reader as the ReadPeeker"},
		Stub:    []string{"the byte stream: chunkReader with planned split points, EOF style and truncation"},
		Runs:    map[string]int{"quick": 250000, "thorough": 700000}, // measured: ~10k quick plans/s and ~2k thorough plans/s on 16 idle cores
		NewPlan: func() any { return &Plan{} },
		Gen:     genPlan,
		Expand:  expand,
		Exec:    execPlan,
		RequiredProbes: []string{"header-split", "payload-split", "frame-split-across-deliveries", "frame-header-split", "data-with-eof", "truncated", "malformed-rejected",
			"small-caller-buffer", "resync-after-small-buffer", "resync-after-malformed", "max-payload", "sideband-multi-frame-write", "demux-pending", "channel3-error", "eof-at-boundary"},
	})
}
