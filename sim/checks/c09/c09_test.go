//go:build verif

// C09 — corrupt or malicious packs never yield wrong objects.
//
// Slice: corruption in transit or at rest, under arbitrary chunking. A valid
// pack (go-git's encoder with OFS or REF deltas, real git's pack-objects,
// go-git-fixtures packs written by git, hand-serialised packs incl. a delta
// chain around the 4095 limit and a cyclic REF pair) is corrupted by the
// plan — byte-level faults (bit flips biased to structure, truncation,
// dropped / duplicated / zero-filled ranges, junk) and structural edits on
// the entry list (declared size +-d, OFS offsets 0 / self / header / middle
// of an entry / wrong entry / overflow, REF base = own id / absent id / wrong
// id, swapped entries, count +-1, delta header sizes, copy out of bounds,
// retyped entries) — with the trailer left stale (in transit) or recomputed
// (malicious sender). The bytes are fed through every ingestion path under
// planned chunking:
//
//	parser[/seek]                      packfile.NewParser + observers, no storage
//	parser+storage/mem[/seek]          NewParser WithStorage(memory)
//	parser+storage/fs[/seek]           NewParser WithStorage(filesystem on simfs); /seek = low-memory mode
//	parser+storage/fs-high/seek        filesystem storage with HighMemoryMode
//	update-storage/mem                 packfile.UpdateObjectStorage(memory)
//	packwriter+reopen/write|update     filesystem PackfileWriter (planned write sizes | UpdateObjectStorage), Close, reopen, read all
//	at-rest+reopen                     valid pack stored, then the .pack file is corrupted on the disk image, reopen, read all
//
// Oracle (self-certifying): a path may reject with any error. If it accepts,
// every object readable from the resulting storage must hash — independent
// stdlib sha1 over "<type> <len>\0data" — to the id it is stored under and to
// its own Hash(), must not deliver more than Size() bytes, ids reported to
// observers / written to the idx must equal what an independent strict pack
// walker (stdlib zlib, own delta application) computes at the same offsets,
// the number of objects must equal the header's count, and the trailer the
// path accepted must be the sha1 of the bytes before it. Whenever go-git
// accepts bytes that the independent walker rejects, real `git index-pack`
// is the judge: git rejecting for a structural reason => violation
// "accepted-what-git-rejects"; git accepting => probe only.
package c09

import (
	"bytes"
	"compress/zlib"
	"crypto/sha1"
	"encoding/binary"
	"encoding/hex"
	"errors"
	"fmt"
	"io"
	"os"
	"os/exec"
	"path/filepath"
	"runtime"
	"runtime/debug"
	"sort"
	"strings"
	"sync"
	"testing"
	"time"

	fixtures "github.com/go-git/go-git-fixtures/v6"
	"github.com/go-git/go-git/v6/plumbing"
	"github.com/go-git/go-git/v6/plumbing/cache"
	"github.com/go-git/go-git/v6/plumbing/format/idxfile"
	"github.com/go-git/go-git/v6/plumbing/format/packfile"
	"github.com/go-git/go-git/v6/storage/filesystem"
	"github.com/go-git/go-git/v6/storage/memory"
	"github.com/go-git/go-git/v6/verifsim/core"
	"github.com/go-git/go-git/v6/verifsim/hooks"
	"github.com/go-git/go-git/v6/verifsim/simfs"
)

// ---------------------------------------------------------------- plan

type Edit struct {
	K string `json:"k"`           // flip trunc drop dup zero junk ofs0 | size ofs ref swap count dupent dsrc dtgt doob retype
	W string `json:"w,omitempty"` // byte edits: region selector (abs sig ver count ehdr base zhdr zbody ztail trailer)
	E int    `json:"e,omitempty"` // entry selector
	O int    `json:"o,omitempty"` // offset inside the region (abs: absolute offset)
	B int    `json:"b,omitempty"` // bit
	N int    `json:"n,omitempty"` // length / delta / value
	V int    `json:"v,omitempty"` // variant
}

type Base struct {
	Kind string `json:"kind"` // gen gen-ref gen-flat git fixture hand deep
	Seed int    `json:"seed,omitempty"`
	Size string `json:"size,omitempty"` // tiny small large
	N    int    `json:"n,omitempty"`    // fixture index / git variant / hand variant / deep depth
}

type Chunking struct {
	Mode   string `json:"mode"` // one list whole
	Chunks []int  `json:"chunks,omitempty"`
	Def    int    `json:"def,omitempty"`
}

type Plan struct {
	Base     Base     `json:"base"`
	Edits    []Edit   `json:"edits,omitempty"`
	Trailer  string   `json:"trailer,omitempty"` // stale | fix
	Paths    []string `json:"paths,omitempty"`
	Chunk    Chunking `json:"chunk"`
	Git      bool     `json:"git,omitempty"`
	Enum     bool     `json:"enum,omitempty"`
	EnumBits []int    `json:"enum_bits,omitempty"`
}

var allPaths = []string{
	"parser", "parser/seek",
	"parser+storage/mem", "parser+storage/mem/seek",
	"parser+storage/fs", "parser+storage/fs/seek", "parser+storage/fs-high/seek",
	"update-storage/mem",
	"packwriter+reopen/write", "packwriter+reopen/update",
	"at-rest+reopen",
}

const (
	tCommit = 1
	tTree   = 2
	tBlob   = 3
	tTag    = 4
	tOfs    = 6
	tRef    = 7

	maxRead   = 64 << 20
	enumLimit = 640
)

func mod(a, n int) int {
	if n <= 0 {
		return 0
	}
	a %= n
	if a < 0 {
		a += n
	}
	return a
}

func clamp(v, lo, hi int) int {
	if v < lo {
		return lo
	}
	if v > hi {
		return hi
	}
	return v
}

func typeName(t int) string {
	switch t {
	case tCommit:
		return "commit"
	case tTree:
		return "tree"
	case tBlob:
		return "blob"
	case tTag:
		return "tag"
	case tOfs:
		return "ofs-delta"
	case tRef:
		return "ref-delta"
	}
	return fmt.Sprintf("type%d", t)
}

type oid [20]byte

func (o oid) String() string { return hex.EncodeToString(o[:]) }

// objID is the independent object name: sha1("<type> <len>\0" + data).
func objID(typ int, data []byte) (id oid) {
	h := sha1.New()
	fmt.Fprintf(h, "%s %d\x00", typeName(typ), len(data))
	h.Write(data)
	copy(id[:], h.Sum(nil))
	return
}

func toOID(h plumbing.Hash) (id oid) { copy(id[:], h.Bytes()); return }

func toHash(id oid) plumbing.Hash { h, _ := plumbing.FromBytes(id[:]); return h }

// ---------------------------------------------------------------- varints, zlib, deltas (independent of go-git)

func encEntryHeader(typ int, size int64) []byte {
	u := uint64(size)
	b := byte(typ&7)<<4 | byte(u&15)
	u >>= 4
	var out []byte
	for u != 0 {
		out = append(out, b|0x80)
		b = byte(u & 0x7f)
		u >>= 7
	}
	return append(out, b)
}

func encOfs(neg uint64) []byte {
	var tmp [12]byte
	pos := len(tmp) - 1
	tmp[pos] = byte(neg & 127)
	for neg >>= 7; neg != 0; neg >>= 7 {
		neg--
		pos--
		tmp[pos] = 128 | byte(neg&127)
	}
	return append([]byte(nil), tmp[pos:]...)
}

func encLEB(n uint64) []byte {
	var out []byte
	for {
		b := byte(n & 0x7f)
		n >>= 7
		if n != 0 {
			out = append(out, b|0x80)
			continue
		}
		return append(out, b)
	}
}

func decLEB(b []byte) (uint64, int) {
	var v uint64
	for i := 0; i < len(b) && i < 10; i++ {
		v |= uint64(b[i]&0x7f) << (7 * uint(i))
		if b[i]&0x80 == 0 {
			return v, i + 1
		}
	}
	return 0, 0
}

var (
	zwMu  sync.Mutex
	zwBuf bytes.Buffer
	zw    *zlib.Writer
)

func deflate(data []byte) []byte {
	zwMu.Lock()
	defer zwMu.Unlock()
	zwBuf.Reset()
	if zw == nil {
		zw = zlib.NewWriter(&zwBuf)
	} else {
		zw.Reset(&zwBuf)
	}
	zw.Write(data)
	zw.Close()
	return append([]byte(nil), zwBuf.Bytes()...)
}

// makeDelta builds a delta turning src into dst: common prefix copy, literal
// middle, common suffix copy.
func makeDelta(src, dst []byte) []byte {
	out := append(encLEB(uint64(len(src))), encLEB(uint64(len(dst)))...)
	p := 0
	for p < len(src) && p < len(dst) && src[p] == dst[p] {
		p++
	}
	s := 0
	for s < len(src)-p && s < len(dst)-p && src[len(src)-1-s] == dst[len(dst)-1-s] {
		s++
	}
	out = append(out, copyOps(0, p)...)
	mid := dst[p : len(dst)-s]
	for len(mid) > 0 {
		n := min(len(mid), 127)
		out = append(out, byte(n))
		out = append(out, mid[:n]...)
		mid = mid[n:]
	}
	out = append(out, copyOps(len(src)-s, s)...)
	return out
}

func copyOps(off, n int) []byte {
	var out []byte
	for n > 0 {
		k := min(n, 0xffff)
		out = append(out, copyOp(uint32(off), uint32(k))...)
		off += k
		n -= k
	}
	return out
}

func copyOp(off, n uint32) []byte {
	cmd := byte(0x80)
	var args []byte
	for i := uint(0); i < 4; i++ {
		if b := byte(off >> (8 * i)); b != 0 {
			cmd |= 1 << i
			args = append(args, b)
		}
	}
	for i := uint(0); i < 3; i++ {
		if b := byte(n >> (8 * i)); b != 0 {
			cmd |= 0x10 << i
			args = append(args, b)
		}
	}
	return append([]byte{cmd}, args...)
}

// applyDelta is the reference delta application (strict, like git's patch-delta.c).
func applyDelta(base, delta []byte) ([]byte, string) {
	srcSz, n := decLEB(delta)
	if n == 0 {
		return nil, "bad-delta"
	}
	delta = delta[n:]
	tgtSz, n := decLEB(delta)
	if n == 0 {
		return nil, "bad-delta"
	}
	delta = delta[n:]
	if srcSz != uint64(len(base)) {
		return nil, "bad-delta"
	}
	if tgtSz > maxRead {
		return nil, "bad-delta"
	}
	out := make([]byte, 0, tgtSz)
	for len(delta) > 0 {
		cmd := delta[0]
		delta = delta[1:]
		switch {
		case cmd&0x80 != 0:
			var off, sz uint32
			for i := uint(0); i < 4; i++ {
				if cmd&(1<<i) != 0 {
					if len(delta) == 0 {
						return nil, "bad-delta"
					}
					off |= uint32(delta[0]) << (8 * i)
					delta = delta[1:]
				}
			}
			for i := uint(0); i < 3; i++ {
				if cmd&(0x10<<i) != 0 {
					if len(delta) == 0 {
						return nil, "bad-delta"
					}
					sz |= uint32(delta[0]) << (8 * i)
					delta = delta[1:]
				}
			}
			if sz == 0 {
				sz = 0x10000
			}
			if uint64(off)+uint64(sz) > uint64(len(base)) || uint64(len(out))+uint64(sz) > tgtSz {
				return nil, "bad-delta"
			}
			out = append(out, base[off:off+sz]...)
		case cmd != 0:
			if int(cmd) > len(delta) || uint64(len(out))+uint64(cmd) > tgtSz {
				return nil, "bad-delta"
			}
			out = append(out, delta[:cmd]...)
			delta = delta[cmd:]
		default:
			return nil, "bad-delta"
		}
	}
	if uint64(len(out)) != tgtSz {
		return nil, "bad-delta"
	}
	return out, ""
}

// ---------------------------------------------------------------- serialiser (entry list -> pack bytes)

const (
	negLink = 0 // OFS offset = distance to entry baseIdx (falls back to neg when the base is not earlier)
	negRaw  = 1 // OFS offset = neg as is
	negAbs  = 2 // OFS offset = own offset - neg (neg is an absolute target; may wrap)
)

type ent struct {
	typ     int
	size    int64
	negMode int
	baseIdx int
	neg     int64
	ref     oid
	z       []byte
}

type region struct {
	off, hdrEnd, refEnd, end int
	typ                      int
}

func serialize(version, count uint32, ents []ent) ([]byte, []region) {
	var b bytes.Buffer
	b.WriteString("PACK")
	binary.Write(&b, binary.BigEndian, version)
	binary.Write(&b, binary.BigEndian, count)
	regs := make([]region, len(ents))
	for k, e := range ents {
		r := region{off: b.Len(), typ: e.typ}
		b.Write(encEntryHeader(e.typ, e.size))
		r.hdrEnd = b.Len()
		switch e.typ {
		case tOfs:
			neg := e.neg
			switch e.negMode {
			case negLink:
				if e.baseIdx >= 0 && e.baseIdx < k {
					neg = int64(r.off - regs[e.baseIdx].off)
				}
			case negAbs:
				neg = int64(r.off) - e.neg
			}
			b.Write(encOfs(uint64(neg)))
		case tRef:
			b.Write(e.ref[:])
		}
		r.refEnd = b.Len()
		b.Write(e.z)
		r.end = b.Len()
		regs[k] = r
	}
	return b.Bytes(), regs
}

func withTrailer(body []byte) []byte {
	s := sha1.Sum(body)
	return append(append([]byte(nil), body...), s[:]...)
}

// ---------------------------------------------------------------- independent strict walker

type went struct {
	region
	size    int64
	neg     int64
	baseOff int64
	ref     oid
	raw     []byte
	// resolved
	done  bool
	rtyp  int
	data  []byte
	id    oid
	depth int
}

type layout struct {
	version  uint32
	count    uint32
	ents     []went
	trailer  int // offset of the trailer
	junk     int // bytes after the trailer
	maxDepth int
	byOff    map[int]int
}

type walkErr struct {
	class string
	msg   string
}

func wErr(class, format string, a ...any) *walkErr {
	return &walkErr{class: class, msg: fmt.Sprintf(format, a...)}
}

func inflateAt(data []byte, pos int, size int64) (raw []byte, end int, class string) {
	br := bytes.NewReader(data[pos:])
	zr, err := zlib.NewReader(br)
	if err != nil {
		if errors.Is(err, io.EOF) || errors.Is(err, io.ErrUnexpectedEOF) {
			return nil, 0, "truncated"
		}
		return nil, 0, "inflate-error"
	}
	limit := size + 1
	if limit > maxRead || limit < 0 {
		limit = maxRead
	}
	raw, err = io.ReadAll(io.LimitReader(zr, limit))
	if err != nil {
		if errors.Is(err, io.ErrUnexpectedEOF) {
			return nil, 0, "truncated"
		}
		return nil, 0, "inflate-error"
	}
	if int64(len(raw)) > size {
		return nil, 0, "inflate-longer"
	}
	if int64(len(raw)) < size {
		return nil, 0, "inflate-shorter"
	}
	return raw, len(data) - br.Len(), ""
}

// walk parses data the way a strict reader (git index-pack) would.
func walk(data []byte) (*layout, *walkErr) {
	if len(data) < 12 {
		return nil, wErr("truncated", "%d bytes", len(data))
	}
	if string(data[:4]) != "PACK" {
		return nil, wErr("bad-signature", "%q", data[:4])
	}
	l := &layout{version: binary.BigEndian.Uint32(data[4:8]), count: binary.BigEndian.Uint32(data[8:12]), byOff: map[int]int{}}
	if l.version != 2 && l.version != 3 {
		return nil, wErr("bad-version", "%d", l.version)
	}
	if uint64(l.count) > uint64(len(data)) {
		return nil, wErr("truncated", "count %d in %d bytes", l.count, len(data))
	}
	pos := 12
	for i := uint32(0); i < l.count; i++ {
		e := went{}
		e.off = pos
		if pos >= len(data) {
			return nil, wErr("truncated", "entry %d at %d", i, pos)
		}
		c := data[pos]
		pos++
		e.typ = int(c>>4) & 7
		size := uint64(c & 15)
		shift := uint(4)
		for c&0x80 != 0 {
			if pos >= len(data) {
				return nil, wErr("truncated", "entry %d header", i)
			}
			if shift > 57 {
				return nil, wErr("size-overflow", "entry %d", i)
			}
			c = data[pos]
			pos++
			size |= uint64(c&0x7f) << shift
			shift += 7
		}
		e.size = int64(size)
		if e.size < 0 {
			return nil, wErr("size-overflow", "entry %d", i)
		}
		e.hdrEnd = pos
		switch e.typ {
		case tCommit, tTree, tBlob, tTag:
		case tOfs:
			if pos >= len(data) {
				return nil, wErr("truncated", "entry %d ofs", i)
			}
			c = data[pos]
			pos++
			neg := uint64(c & 127)
			for c&128 != 0 {
				neg++
				if neg == 0 || neg>>57 != 0 {
					return nil, wErr("ofs-out-of-bound", "entry %d: offset overflow", i)
				}
				if pos >= len(data) {
					return nil, wErr("truncated", "entry %d ofs", i)
				}
				c = data[pos]
				pos++
				neg = neg<<7 + uint64(c&127)
			}
			e.neg = int64(neg)
			e.baseOff = int64(e.off) - e.neg
			if e.baseOff <= 0 || e.baseOff >= int64(e.off) {
				return nil, wErr("ofs-out-of-bound", "entry %d at %d: negative offset %d", i, e.off, e.neg)
			}
		case tRef:
			if pos+20 > len(data) {
				return nil, wErr("truncated", "entry %d ref", i)
			}
			copy(e.ref[:], data[pos:])
			pos += 20
		default:
			return nil, wErr("bad-type", "entry %d at %d: type %d", i, e.off, e.typ)
		}
		e.refEnd = pos
		raw, end, class := inflateAt(data, pos, e.size)
		if class != "" {
			return nil, wErr(class, "entry %d at %d (%s, declared %d)", i, e.off, typeName(e.typ), e.size)
		}
		e.raw, e.end = raw, end
		pos = end
		l.byOff[e.off] = len(l.ents)
		l.ents = append(l.ents, e)
	}
	if pos+20 > len(data) {
		return nil, wErr("truncated", "trailer at %d of %d", pos, len(data))
	}
	l.trailer = pos
	l.junk = len(data) - pos - 20
	if s := sha1.Sum(data[:pos]); !bytes.Equal(s[:], data[pos:pos+20]) {
		return nil, wErr("trailer-mismatch", "at %d", pos)
	}
	// resolve deltas
	byID := map[oid]int{}
	for i := range l.ents {
		e := &l.ents[i]
		if e.typ <= tTag {
			e.done, e.rtyp, e.data = true, e.typ, e.raw
			e.id = objID(e.rtyp, e.data)
			if _, ok := byID[e.id]; !ok {
				byID[e.id] = i
			}
		}
	}
	for progress := true; progress; {
		progress = false
		for i := range l.ents {
			e := &l.ents[i]
			if e.done {
				continue
			}
			bi := -1
			if e.typ == tOfs {
				j, ok := l.byOff[int(e.baseOff)]
				if !ok {
					return nil, wErr("unresolved-delta", "ofs-delta at %d: no entry at %d", e.off, e.baseOff)
				}
				bi = j
			} else if j, ok := byID[e.ref]; ok {
				bi = j
			}
			if bi < 0 || !l.ents[bi].done {
				continue
			}
			b := &l.ents[bi]
			out, class := applyDelta(b.data, e.raw)
			if class != "" {
				return nil, wErr(class, "delta at %d on base at %d", e.off, b.off)
			}
			e.done, e.rtyp, e.data, e.depth = true, b.rtyp, out, b.depth+1
			e.id = objID(e.rtyp, e.data)
			if e.depth > l.maxDepth {
				l.maxDepth = e.depth
			}
			if _, ok := byID[e.id]; !ok {
				byID[e.id] = i
			}
			progress = true
		}
	}
	for i := range l.ents {
		if !l.ents[i].done {
			return nil, wErr("unresolved-delta", "%s at %d", typeName(l.ents[i].typ), l.ents[i].off)
		}
	}
	return l, nil
}

func (l *layout) regions() []region {
	out := make([]region, len(l.ents))
	for i := range l.ents {
		out[i] = l.ents[i].region
	}
	return out
}

// toEnts turns a walked pack into an editable entry list.
func (l *layout) toEnts(data []byte) []ent {
	out := make([]ent, len(l.ents))
	for i, e := range l.ents {
		x := ent{typ: e.typ, size: e.size, baseIdx: -1, neg: e.neg, ref: e.ref, z: data[e.refEnd:e.end]}
		if e.typ == tOfs {
			x.baseIdx = l.byOff[int(e.baseOff)]
		}
		out[i] = x
	}
	return out
}

// regionName classifies an absolute offset of a serialised pack.
func regionName(regs []region, total, pos int) string {
	switch {
	case pos < 0 || pos >= total:
		return "beyond"
	case pos < 4:
		return "sig"
	case pos < 8:
		return "version"
	case pos < 12:
		return "count"
	case pos >= total-20:
		return "trailer"
	}
	i := sort.Search(len(regs), func(i int) bool { return regs[i].end > pos })
	if i >= len(regs) || pos < regs[i].off {
		return "gap"
	}
	r := regs[i]
	switch {
	case pos < r.hdrEnd:
		return "entry-header"
	case pos < r.refEnd:
		if r.typ == tRef {
			return "ref-base"
		}
		return "ofs-offset"
	case pos < r.refEnd+2:
		return "zlib-header"
	case pos >= r.end-4:
		return "zlib-tail"
	}
	return "zlib-body"
}

// ---------------------------------------------------------------- object universe

type uobj struct {
	typ  int
	data []byte
	id   oid
}

var words = strings.Fields("func return if else for range package import var const type struct error nil string int byte append len make map chan go defer select case switch break continue fmt Println main storage plumbing object hash offset delta")

func textBlob(r *core.Rand, n int) []byte {
	var b bytes.Buffer
	for b.Len() < n {
		k := r.Range(2, 9)
		for i := 0; i < k; i++ {
			if i > 0 {
				b.WriteByte(' ')
			}
			b.WriteString(words[r.Intn(len(words))])
		}
		b.WriteByte('\n')
	}
	return b.Bytes()
}

func variantOf(r *core.Rand, src []byte, edits int) []byte {
	lines := bytes.SplitAfter(src, []byte("\n"))
	for i := 0; i < edits && len(lines) > 0; i++ {
		at := r.Intn(len(lines))
		nl := []byte(fmt.Sprintf("// changed %d %s\n", r.Intn(1000), words[r.Intn(len(words))]))
		switch r.Intn(3) {
		case 0:
			lines[at] = nl
		case 1:
			lines = append(lines[:at], append([][]byte{nl}, lines[at:]...)...)
		default:
			lines = append(lines[:at], lines[at+1:]...)
		}
	}
	return bytes.Join(lines, nil)
}

type treeEnt struct {
	name string
	dir  bool
	id   oid
}

func treeData(es []treeEnt) []byte {
	key := func(e treeEnt) string {
		if e.dir {
			return e.name + "/"
		}
		return e.name
	}
	sort.Slice(es, func(i, j int) bool { return key(es[i]) < key(es[j]) })
	var b bytes.Buffer
	for _, e := range es {
		if e.dir {
			b.WriteString("40000 ")
		} else {
			b.WriteString("100644 ")
		}
		b.WriteString(e.name)
		b.WriteByte(0)
		b.Write(e.id[:])
	}
	return b.Bytes()
}

func commitData(tree oid, parent *oid, n int) []byte {
	var b bytes.Buffer
	fmt.Fprintf(&b, "tree %s\n", tree)
	if parent != nil {
		fmt.Fprintf(&b, "parent %s\n", *parent)
	}
	fmt.Fprintf(&b, "author A U Thor <author@example.com> %d +0000\ncommitter C O Mitter <committer@example.com> %d +0000\n\ncommit number %d\n", 1600000000+n, 1600000100+n, n)
	return b.Bytes()
}

func universe(seed int, size string) []uobj {
	r := core.NewRand(uint64(seed)*7919 + 13)
	var out []uobj
	add := func(typ int, data []byte) oid {
		id := objID(typ, data)
		for _, o := range out {
			if o.id == id {
				return id
			}
		}
		out = append(out, uobj{typ, data, id})
		return id
	}
	if size == "tiny" {
		a := add(tBlob, textBlob(r, 30))
		t := add(tTree, treeData([]treeEnt{{name: "a.txt", id: a}}))
		add(tCommit, commitData(t, nil, seed))
		return out
	}
	empty := add(tBlob, nil)
	one := add(tBlob, []byte{'x'})
	t1 := textBlob(r, r.Range(300, 700))
	t1v := variantOf(r, t1, 2)
	t1vv := variantOf(r, t1v, 2)
	t2 := textBlob(r, r.Range(1200, 2500))
	t2v := variantOf(r, t2, 3)
	rnd := r.Bytes(300)
	sub := add(tTree, treeData([]treeEnt{{name: "m.txt", id: add(tBlob, t2)}, {name: "n.bin", id: add(tBlob, rnd)}}))
	r1 := []treeEnt{{name: "a.txt", id: add(tBlob, t1)}, {name: "b.txt", id: add(tBlob, t2)}, {name: "e.txt", id: empty}, {name: "x", id: one}, {name: "zsub", dir: true, id: sub}}
	r2 := []treeEnt{{name: "a.txt", id: add(tBlob, t1v)}, {name: "b.txt", id: add(tBlob, t2v)}, {name: "c.txt", id: add(tBlob, t1vv)}, {name: "e.txt", id: empty}, {name: "zsub", dir: true, id: sub}}
	if size == "large" {
		big := textBlob(r, 70000)
		bigv := variantOf(r, big, 5)
		r1 = append(r1, treeEnt{name: "big.txt", id: add(tBlob, big)}, treeEnt{name: "rnd.bin", id: add(tBlob, r.Bytes(10000))})
		r2 = append(r2, treeEnt{name: "big.txt", id: add(tBlob, bigv)})
	}
	root1 := add(tTree, treeData(r1))
	root2 := add(tTree, treeData(r2))
	c1 := add(tCommit, commitData(root1, nil, seed))
	c2 := add(tCommit, commitData(root2, &c1, seed+1))
	add(tTag, []byte(fmt.Sprintf("object %s\ntype commit\ntag v%d\ntagger T Agger <tagger@example.com> 1600000300 +0000\n\nrelease %d\n", c2, seed, seed)))
	return out
}

// ---------------------------------------------------------------- base packs

type basePack struct {
	data []byte
	lay  *layout
	err  string // non-empty: unusable (inconclusive reason)
	bad  bool   // invalid by construction (cyclic REF pair): every path must reject it
	uni  map[oid]uobj
}

var (
	baseMu    sync.Mutex
	baseCache = map[string]*basePack{}
)

var fixturePacks = []string{
	"29f304662fd64f102d94722cf5bd8802d9a9472c", // 184 B, 2 objects
	"bc4b855a55cae7703c023d4e36e3a7c9f5d84491", // 467 B, ofs delta
	"b68617dd8637fe6409d9842825a843a1d9a6e484", // 674 B, tags
	"3638209d310e10ea8d90c362d568be65dd5e03a6", // 3.7 KB, chains of 3
	"90fedc00729b64ea0d0406db861be081cda25bbf", // 6.6 KB, delta before base
	"bb8ee94710d3fa39379a630f76812c187217b312", // 3.1 KB
	"a3fed42da1e8189a077c0e6846c040dcf73fc9dd", // 84 KB basic, ofs deltas
	"c544593473465e6315ad4182d04d366c4592b829", // 85 KB basic, ref deltas
}

func normBase(b Base) Base {
	switch b.Kind {
	case "gen", "gen-ref", "gen-flat":
		b.Seed = mod(b.Seed, 48)
		b.N = 0
		if b.Size != "tiny" && b.Size != "large" {
			b.Size = "small"
		}
	case "git":
		b.Seed = mod(b.Seed, 4)
		b.N = mod(b.N, 3)
		if b.Size != "large" {
			b.Size = "small"
		}
	case "fixture":
		b.Seed, b.Size, b.N = 0, "", mod(b.N, len(fixturePacks))
	case "deep":
		b.Seed, b.Size = 0, ""
		b.N = clamp(b.N, 0, 4200)
	default:
		b.Kind, b.Size = "hand", ""
		b.Seed = mod(b.Seed, 8)
		b.N = mod(b.N, 7)
	}
	return b
}

func getBase(b Base) *basePack {
	b = normBase(b)
	key := fmt.Sprint(b)
	baseMu.Lock()
	defer baseMu.Unlock()
	if bp, ok := baseCache[key]; ok {
		return bp
	}
	if len(baseCache) > 600 {
		baseCache = map[string]*basePack{}
	}
	bp := &basePack{}
	var err error
	switch b.Kind {
	case "gen", "gen-ref", "gen-flat":
		bp.data, err = genPack(b)
	case "git":
		bp.data, err = gitPack(b)
	case "fixture":
		bp.data, err = fixturePack(b.N)
	case "deep":
		bp.data = deepPack(b.N)
	default:
		bp.data = handPack(b.N, b.Seed)
	}
	if err != nil {
		bp.err = "base-build-failed:" + b.Kind
		fmt.Fprintf(os.Stderr, "c09: base %v: %v\n", b, err)
		baseCache[key] = bp
		return bp
	}
	if b.Kind == "hand" && b.N == 4 {
		// the cyclic pair cannot be walked by construction; layout from the serialiser
		bp.lay, bp.bad = handCycleLayout, true
		baseCache[key] = bp
		return bp
	}
	lay, werr := walk(bp.data)
	if werr != nil {
		bp.err = "base-unwalkable:" + b.Kind
		fmt.Fprintf(os.Stderr, "c09: base %v does not walk: %s %s\n", b, werr.class, werr.msg)
		baseCache[key] = bp
		return bp
	}
	bp.lay = lay
	switch b.Kind {
	case "gen", "gen-ref", "gen-flat", "git":
		bp.uni = map[oid]uobj{}
		for _, o := range universe(b.Seed, b.Size) {
			bp.uni[o.id] = o
		}
		for _, e := range lay.ents {
			u, ok := bp.uni[e.id]
			if !ok || u.typ != e.rtyp || !bytes.Equal(u.data, e.data) {
				bp.err = "base-not-in-universe:" + b.Kind
			}
		}
		if len(lay.ents) != len(bp.uni) {
			bp.err = "base-not-in-universe:" + b.Kind
		}
	}
	if bp.err == "" && (b.Kind == "git" || b.Kind == "fixture") {
		if msg := crossValidate(bp.data, lay); msg != "" {
			bp.err = "walker-disagrees-with-git:" + b.Kind
			fmt.Fprintf(os.Stderr, "c09: base %v: %s\n", b, msg)
		}
	}
	baseCache[key] = bp
	return bp
}

func genPack(b Base) ([]byte, error) {
	ms := memory.NewStorage()
	var hs []plumbing.Hash
	for _, u := range universe(b.Seed, b.Size) {
		o := ms.NewEncodedObject()
		o.SetType(plumbing.ObjectType(u.typ))
		o.SetSize(int64(len(u.data)))
		w, _ := o.Writer()
		w.Write(u.data)
		w.Close()
		h, err := ms.SetEncodedObject(o)
		if err != nil {
			return nil, err
		}
		if toOID(h) != u.id {
			return nil, fmt.Errorf("independent id %s != go-git id %s", u.id, h)
		}
		hs = append(hs, h)
	}
	var buf bytes.Buffer
	window := uint(10)
	if b.Kind == "gen-flat" {
		window = 0
	}
	enc := packfile.NewEncoder(&buf, ms, b.Kind == "gen-ref")
	if _, err := enc.Encode(hs, window); err != nil {
		return nil, err
	}
	return buf.Bytes(), nil
}

func fixturePack(n int) ([]byte, error) {
	f, err := fixtures.Filesystem.Open("data/pack-" + fixturePacks[mod(n, len(fixturePacks))] + ".pack")
	if err != nil {
		return nil, err
	}
	defer f.Close()
	return io.ReadAll(f)
}

// ---- hand-built packs

func fullEnt(typ int, data []byte) ent {
	return ent{typ: typ, size: int64(len(data)), baseIdx: -1, z: deflate(data)}
}

func ofsEnt(baseIdx int, delta []byte) ent {
	return ent{typ: tOfs, size: int64(len(delta)), baseIdx: baseIdx, z: deflate(delta)}
}

func refEnt(base oid, delta []byte) ent {
	return ent{typ: tRef, size: int64(len(delta)), baseIdx: -1, ref: base, z: deflate(delta)}
}

var handCycleLayout *layout

func handPack(variant, seed int) []byte {
	r := core.NewRand(uint64(seed)*31 + 7)
	b0 := textBlob(r, 48)
	b1 := variantOf(r, b0, 1)
	if bytes.Equal(b0, b1) {
		b1 = append(append([]byte(nil), b0...), "tail\n"...)
	}
	b2 := append(append([]byte("head\n"), b1...), "end\n"...)
	b3 := append(append([]byte(nil), b2...), "more\n"...)
	var es []ent
	switch variant {
	case 0:
		es = []ent{fullEnt(tBlob, b0), ofsEnt(0, makeDelta(b0, b1))}
	case 1:
		es = []ent{fullEnt(tBlob, b0), refEnt(objID(tBlob, b0), makeDelta(b0, b1))}
	case 2:
		a := objID(tBlob, b0)
		t := treeData([]treeEnt{{name: "f", id: a}})
		c := commitData(objID(tTree, t), nil, seed)
		es = []ent{fullEnt(tCommit, c), fullEnt(tTree, t), fullEnt(tBlob, b0), ofsEnt(2, makeDelta(b0, b1)), refEnt(objID(tBlob, b1), makeDelta(b1, b2))}
	case 3:
		tag := []byte(fmt.Sprintf("object %s\ntype blob\ntag e\ntagger T <t@example.com> 1600000000 +0000\n\nempty\n", objID(tBlob, nil)))
		es = []ent{fullEnt(tBlob, nil), fullEnt(tTag, tag), fullEnt(tBlob, []byte{byte('a' + seed%26)})}
	case 4:
		// cyclic pair: d1 claims base id(b2), d2 claims base id(b1); b1 = d1(b0), b2 = d2(b1); b0 absent
		es = []ent{refEnt(objID(tBlob, b2), makeDelta(b0, b1)), refEnt(objID(tBlob, b1), makeDelta(b1, b2))}
	case 5:
		es = []ent{refEnt(objID(tBlob, b0), makeDelta(b0, b1)), fullEnt(tBlob, b0)}
	default:
		es = []ent{fullEnt(tBlob, b0), ofsEnt(0, makeDelta(b0, b1)), ofsEnt(1, makeDelta(b1, b2)), ofsEnt(2, makeDelta(b2, b3))}
	}
	body, regs := serialize(2, uint32(len(es)), es)
	if variant == 4 {
		l := &layout{version: 2, count: 2, trailer: len(body), byOff: map[int]int{}}
		for i, rg := range regs {
			l.ents = append(l.ents, went{region: rg, size: es[i].size, ref: es[i].ref})
			l.byOff[rg.off] = i
		}
		handCycleLayout = l
	}
	return withTrailer(body)
}

func deepPack(depth int) []byte {
	cur := []byte("deep chain base blob 0123456789\n\x00\x00")
	es := make([]ent, 0, depth+1)
	es = append(es, fullEnt(tBlob, cur))
	for i := 1; i <= depth; i++ {
		next := append([]byte(nil), cur...)
		next[len(next)-2], next[len(next)-1] = byte(i>>8), byte(i)
		d := append(encLEB(uint64(len(cur))), encLEB(uint64(len(next)))...)
		d = append(d, copyOp(0, uint32(len(cur)-2))...)
		d = append(d, 2, byte(i>>8), byte(i))
		es = append(es, ofsEnt(i-1, d))
		cur = next
	}
	body, _ := serialize(2, uint32(len(es)), es)
	return withTrailer(body)
}

// ---------------------------------------------------------------- real git (setup of git-made packs, judge)

var (
	scratchOnce sync.Once
	scratchDir  string
	scratchSeq  int
	gitMu       sync.Mutex
	gitCache    = map[[20]byte]gitVerdict{}
)

func scratch() string {
	scratchOnce.Do(func() {
		d := fmt.Sprintf("/var/tmp/c09-%d", os.Getpid())
		os.RemoveAll(d)
		if os.MkdirAll(d, 0o755) == nil {
			scratchDir = d
		}
	})
	return scratchDir
}

func cleanupScratch() {
	if scratchDir != "" {
		os.RemoveAll(scratchDir)
	}
}

func runGit(dir string, stdin []byte, args ...string) (string, string, error) {
	cmd := exec.Command("git", args...)
	cmd.Dir = dir
	cmd.Env = []string{"GIT_CONFIG_NOSYSTEM=1", "GIT_CONFIG_GLOBAL=/dev/null", "HOME=" + dir, "LC_ALL=C", "PATH=" + os.Getenv("PATH"), "GIT_TERMINAL_PROMPT=0"}
	var so, se bytes.Buffer
	cmd.Stdout, cmd.Stderr = &so, &se
	if stdin != nil {
		cmd.Stdin = bytes.NewReader(stdin)
	}
	err := cmd.Run()
	return so.String(), se.String(), err
}

func gitPack(b Base) ([]byte, error) {
	root := scratch()
	if root == "" {
		return nil, errors.New("no scratch dir")
	}
	gitMu.Lock()
	scratchSeq++
	dir := filepath.Join(root, fmt.Sprintf("repo%d", scratchSeq))
	gitMu.Unlock()
	defer os.RemoveAll(dir)
	if err := os.MkdirAll(dir, 0o755); err != nil {
		return nil, err
	}
	if _, se, err := runGit(dir, nil, "init", "-q", "--bare", "."); err != nil {
		return nil, fmt.Errorf("git init: %v %s", err, se)
	}
	var head, tag oid
	for _, u := range universe(b.Seed, b.Size) {
		hx := u.id.String()
		od := filepath.Join(dir, "objects", hx[:2])
		os.MkdirAll(od, 0o755)
		raw := append([]byte(fmt.Sprintf("%s %d\x00", typeName(u.typ), len(u.data))), u.data...)
		if err := os.WriteFile(filepath.Join(od, hx[2:]), deflate(raw), 0o444); err != nil {
			return nil, err
		}
		switch u.typ {
		case tCommit:
			head = u.id
		case tTag:
			tag = u.id
		}
	}
	os.MkdirAll(filepath.Join(dir, "refs", "heads"), 0o755)
	os.MkdirAll(filepath.Join(dir, "refs", "tags"), 0o755)
	os.WriteFile(filepath.Join(dir, "refs", "heads", "master"), []byte(head.String()+"\n"), 0o644)
	os.WriteFile(filepath.Join(dir, "refs", "tags", "v"), []byte(tag.String()+"\n"), 0o644)
	args := []string{"-c", "pack.threads=1", "-c", "pack.writeBitmaps=false"}
	depth := "50"
	switch b.N {
	case 1:
		args = append(args, "-c", "repack.useDeltaBaseOffset=false")
	case 2:
		depth = "1"
	}
	args = append(args, "repack", "-adfq", "--depth="+depth, "--window=10")
	if _, se, err := runGit(dir, nil, args...); err != nil {
		return nil, fmt.Errorf("git repack: %v %s", err, se)
	}
	m, _ := filepath.Glob(filepath.Join(dir, "objects", "pack", "pack-*.pack"))
	if len(m) != 1 {
		return nil, fmt.Errorf("%d packs after repack", len(m))
	}
	return os.ReadFile(m[0])
}

type gitVerdict struct {
	avail bool
	ok    bool
	class string
	msg   string
}

var gitReasons = []struct{ sub, class string }{
	{"pack signature mismatch", "bad-signature"},
	{"pack version", "bad-version"},
	{"pack is corrupted (SHA1 mismatch)", "trailer-mismatch"},
	{"delta base offset is out of bound", "delta-base-offset"},
	{"delta base offset overflow", "delta-base-offset"},
	{"serious inflate inconsistency", "inflate-inconsistency"},
	{"inflate returned", "inflate"},
	{"unknown object type", "bad-object-type"},
	{"pack has bad object at offset", "bad-object"},
	{"premature end of pack file", "premature-end"},
	{"early EOF", "premature-end"},
	{"unresolved delta", "unresolved-deltas"},
	{"failed to apply delta", "bad-delta"},
	{"pack has junk at the end", "junk-at-end"},
	{"pack too large", "size-overflow"},
	{"exceeds maximum", "size-overflow"},
	{"used more bytes than were available", "inflate-inconsistency"},
	{"cannot fill", "premature-end"},
	{"confusion beyond insanity", "confusion"},
	{"SHA1 COLLISION", "collision"},
}

// gitIndexPack asks the installed git to index the bytes.
func gitIndexPack(data []byte) gitVerdict {
	key := sha1.Sum(data)
	gitMu.Lock()
	if v, ok := gitCache[key]; ok {
		gitMu.Unlock()
		return v
	}
	scratchSeq++
	seq := scratchSeq
	gitMu.Unlock()
	v := gitVerdict{}
	root := scratch()
	if root != "" {
		dir := filepath.Join(root, fmt.Sprintf("ip%d", seq))
		if os.MkdirAll(dir, 0o755) == nil {
			if os.WriteFile(filepath.Join(dir, "x.pack"), data, 0o644) == nil {
				_, se, err := runGit(dir, nil, "index-pack", "-o", "x.idx", "x.pack")
				var ee *exec.ExitError
				switch {
				case err == nil:
					v.avail, v.ok = true, true
				case errors.As(err, &ee):
					v.avail = true
					v.msg = strings.TrimSpace(se)
					v.class = "unclassified"
					for _, r := range gitReasons {
						if strings.Contains(se, r.sub) {
							v.class = r.class
							break
						}
					}
					if v.class == "inflate" {
						switch {
						case strings.Contains(se, "inflate returned 1"):
							v.class = "inflate-shorter-than-declared"
						case strings.Contains(se, "inflate returned -5"):
							v.class = "inflate-longer-than-declared"
						case strings.Contains(se, "inflate returned -3"):
							v.class = "inflate-data-error"
						}
					}
				}
			}
			os.RemoveAll(dir)
		}
	}
	gitMu.Lock()
	if len(gitCache) > 20000 {
		gitCache = map[[20]byte]gitVerdict{}
	}
	gitCache[key] = v
	gitMu.Unlock()
	return v
}

// crossValidate compares the walker's inventory of a valid pack with git verify-pack.
func crossValidate(data []byte, lay *layout) string {
	root := scratch()
	if root == "" {
		return ""
	}
	gitMu.Lock()
	scratchSeq++
	dir := filepath.Join(root, fmt.Sprintf("cv%d", scratchSeq))
	gitMu.Unlock()
	defer os.RemoveAll(dir)
	if os.MkdirAll(dir, 0o755) != nil || os.WriteFile(filepath.Join(dir, "x.pack"), data, 0o644) != nil {
		return ""
	}
	if _, se, err := runGit(dir, nil, "index-pack", "-o", "x.idx", "x.pack"); err != nil {
		return "git index-pack rejects the base pack: " + se
	}
	so, se, err := runGit(dir, nil, "verify-pack", "-v", "x.idx")
	if err != nil {
		return "git verify-pack: " + se
	}
	n := 0
	for _, line := range strings.Split(so, "\n") {
		f := strings.Fields(line)
		if len(f) < 5 || len(f[0]) != 40 {
			continue
		}
		var off int
		var size int64
		fmt.Sscan(f[4], &off)
		fmt.Sscan(f[2], &size)
		i, ok := lay.byOff[off]
		if !ok {
			return fmt.Sprintf("git lists %s at %d, the walker has no entry there", f[0], off)
		}
		e := lay.ents[i]
		if e.id.String() != f[0] || typeName(e.rtyp) != f[1] {
			return fmt.Sprintf("offset %d: git %s %s, walker %s %s", off, f[0], f[1], e.id, typeName(e.rtyp))
		}
		n++
	}
	if n != len(lay.ents) {
		return fmt.Sprintf("git lists %d objects, the walker %d", n, len(lay.ents))
	}
	return ""
}

// ---------------------------------------------------------------- corruption

func isStructural(k string) bool {
	switch k {
	case "size", "ofs", "ref", "swap", "count", "dupent", "dsrc", "dtgt", "doob", "dtrunc", "dins", "dtrail", "retype":
		return true
	}
	return false
}

type corrupted struct {
	data    []byte
	regs    []region // layout of the bytes before the byte-level edits
	total   int      // length before the byte-level edits
	classes []string // fault class per applied edit (plan order: structural first, then byte-level)
	noop    bool
	inEntry bool
}

// pickEntry selects the k-th entry satisfying want (cycling), or -1.
func pickEntry(n, k int, want func(i int) bool) int {
	var c []int
	for i := 0; i < n; i++ {
		if want(i) {
			c = append(c, i)
		}
	}
	if len(c) == 0 {
		return -1
	}
	return c[mod(k, len(c))]
}

func corrupt(p *Plan, bp *basePack) *corrupted {
	lay := bp.lay
	c := &corrupted{}
	data := bp.data
	regs := lay.regions()
	var structural, bytewise []Edit
	for i, e := range p.Edits {
		if i >= 6 {
			break
		}
		if isStructural(e.K) {
			structural = append(structural, e)
		} else {
			bytewise = append(bytewise, e)
		}
	}
	if len(structural) > 0 {
		ents := lay.toEnts(data)
		count := lay.count
		version := lay.version
		n := len(ents)
		for _, e := range structural {
			class := e.K
			switch e.K {
			case "size":
				k := mod(e.E, n)
				d := int64(e.N)
				if d == 0 {
					d = 1
				}
				if n == 0 {
					break
				}
				ns := ents[k].size + d
				if ns < 0 {
					ns = 0
				}
				if d > 0 {
					class = "size+"
				} else {
					class = "size-"
				}
				if ents[k].typ >= tOfs {
					class += ":delta"
				}
				ents[k].size = ns
			case "ofs":
				k := pickEntry(n, e.E, func(i int) bool { return ents[i].typ == tOfs })
				if k < 0 {
					class = "ofs:none"
					break
				}
				x := &ents[k]
				switch mod(e.V, 7) {
				case 0:
					x.negMode, x.neg, class = negRaw, 0, "ofs=0"
				case 1:
					x.negMode, x.neg, class = negAbs, 0, "ofs=own-offset"
				case 2:
					x.negMode, x.neg, class = negAbs, -int64(1+mod(e.N, 1000)), "ofs>own-offset"
				case 3:
					x.negMode, x.neg, class = negAbs, int64(mod(e.N, 12)), "ofs-into-header"
				case 4:
					bi := x.baseIdx
					if bi < 0 || bi >= len(regs) {
						bi = 0
					}
					span := regs[bi].end - regs[bi].off
					x.negMode, x.neg, class = negAbs, int64(regs[bi].off+1+mod(e.N, max(span-1, 1))), "ofs-into-entry"
				case 5:
					j := pickEntry(n, e.N, func(i int) bool { return i < k && i != x.baseIdx })
					if j < 0 {
						class = "ofs:none"
						break
					}
					x.negMode, x.baseIdx, class = negLink, j, "ofs-wrong-entry"
				default:
					x.negMode, x.neg, class = negRaw, int64(1)<<62+int64(e.N), "ofs-overflow"
				}
			case "ref":
				k := pickEntry(n, e.E, func(i int) bool { return ents[i].typ == tRef })
				conv := false
				if k < 0 {
					k = pickEntry(n, e.E, func(i int) bool { return ents[i].typ == tOfs && ents[i].baseIdx >= 0 })
					conv = true
				}
				if k < 0 || lay.ents[k].id == (oid{}) {
					class = "ref:none"
					break
				}
				x := &ents[k]
				if conv {
					x.ref = lay.ents[x.baseIdx].id
					x.typ = tRef
				}
				switch mod(e.V, 5) {
				case 0:
					class = "ref-valid"
					if !conv {
						class = "ref:none"
					}
				case 1:
					x.ref, class = lay.ents[k].id, "ref=own-id"
				case 2:
					x.ref, class = objID(tBlob, []byte(fmt.Sprint("absent", e.N))), "ref-absent"
				case 3:
					j := pickEntry(n, e.N, func(i int) bool { return i != k && lay.ents[i].id != x.ref })
					if j < 0 {
						class = "ref:none"
						break
					}
					x.ref, class = lay.ents[j].id, "ref-wrong-base"
				default:
					j := pickEntry(n, e.N, func(i int) bool { return i > k && lay.ents[i].typ >= tOfs })
					if j < 0 {
						class = "ref:none"
						break
					}
					x.ref, class = lay.ents[j].id, "ref-later-delta"
				}
			case "swap":
				if n < 2 {
					class = "swap:none"
					break
				}
				i, j := mod(e.E, n), mod(e.N, n)
				if i == j {
					j = (i + 1) % n
				}
				for k := range ents {
					if ents[k].typ == tOfs {
						ents[k].negMode = negRaw
					}
				}
				ents[i], ents[j] = ents[j], ents[i]
			case "count":
				switch mod(e.V, 4) {
				case 0:
					count, class = count+1, "count+1"
				case 1:
					count, class = count-1, "count-1"
				case 2:
					count, class = 0, "count=0"
				default:
					count, class = count+uint32(1+mod(e.N, 1<<20))<<8, "count-huge"
				}
			case "dupent":
				if n == 0 {
					break
				}
				k := mod(e.E, n)
				ents = append(ents, ents[k])
				count++
			case "dsrc", "dtgt", "doob", "dtrunc", "dins", "dtrail":
				k := pickEntry(n, e.E, func(i int) bool { return i < len(lay.ents) && ents[i].typ >= tOfs && len(lay.ents[i].raw) > 2 && bytes.Equal(ents[i].z, data[lay.ents[i].refEnd:lay.ents[i].end]) })
				if k < 0 {
					class = e.K + ":none"
					break
				}
				raw := lay.ents[k].raw
				src, n1 := decLEB(raw)
				tgt, n2 := decLEB(raw[n1:])
				ops := raw[n1+n2:]
				d := uint64(1 + mod(e.N, 3))
				switch e.K {
				case "dsrc":
					if e.V%2 == 0 || src < d {
						src += d
					} else {
						src -= d
					}
					class = "delta-src-size"
				case "dtgt":
					if e.V%2 == 0 || tgt < d {
						tgt += d
						class = "delta-target-size+"
					} else {
						tgt -= d
						class = "delta-target-size-"
					}
				case "dtrunc":
					// the instruction stream ends early (inside an insert's literal bytes or a copy's argument
					// bytes, or simply one instruction short) while the declared sizes stay: the zlib stream
					// and the entry header are consistent, only the delta's own content is not
					cut := 1 + mod(e.N, 6)
					if cut >= len(ops) {
						cut = len(ops) - 1
					}
					if cut < 1 {
						class = "dtrunc:none"
						break
					}
					ops = append([]byte(nil), ops[:len(ops)-cut]...)
					class = "delta-ops-truncated"
				case "dins":
					// a final insert instruction that claims more literal bytes than follow it
					claim := 2 + mod(e.N, 120)
					have := mod(e.V, claim)
					lit := bytes.Repeat([]byte{'x'}, have)
					ops = append(append(append([]byte(nil), ops...), byte(claim)), lit...)
					tgt += uint64(claim)
					class = "delta-insert-past-end"
				case "dtrail":
					// instructions after the declared target size has been produced
					ops = append(append([]byte(nil), ops...), 1, 'z')
					class = "delta-trailing-instruction"
				default:
					ops = append(append([]byte(nil), ops...), copyOp(uint32(src)-uint32(min(src, 2)), uint32(4+mod(e.N, 100)))...)
					tgt += uint64(4 + mod(e.N, 100))
					class = "delta-copy-out-of-bounds"
				}
				if strings.HasSuffix(class, ":none") {
					break
				}
				nd := append(append(encLEB(src), encLEB(tgt)...), ops...)
				ents[k].z = deflate(nd)
				ents[k].size = int64(len(nd))
			case "retype":
				k := pickEntry(n, e.E, func(i int) bool { return ents[i].typ <= tTag })
				if k < 0 {
					class = "retype:none"
					break
				}
				nt := []int{tCommit, tTree, tBlob, tTag, 0, 5}[mod(e.V, 6)]
				if nt == ents[k].typ {
					nt = nt%4 + 1
				}
				ents[k].typ = nt
				class = "retype"
				if nt == 0 || nt == 5 {
					class = "retype-invalid"
				}
			}
			c.classes = append(c.classes, class)
		}
		var body []byte
		body, regs = serialize(version, count, ents)
		tr := data[len(data)-20:]
		data = append(body, tr...)
	}
	data = append([]byte(nil), data...)
	c.regs, c.total = regs, len(data)
	for _, e := range bytewise {
		n := len(data)
		pos := -1
		if n > 0 {
			pos = resolvePos(e, regs, c.total, n)
		}
		class := e.K
		ln := clamp(e.N, 1, 4096)
		switch e.K {
		case "flip":
			if pos < 0 {
				break
			}
			data[pos] ^= 1 << uint(mod(e.B, 8))
			class = "flip:" + regionName(regs, c.total, pos)
		case "trunc":
			if pos < 0 {
				break
			}
			data = data[:pos]
			class = "trunc:" + regionName(regs, c.total, pos)
		case "drop":
			if pos < 0 {
				break
			}
			end := min(pos+ln, n)
			data = append(data[:pos], data[end:]...)
			class = "drop:" + regionName(regs, c.total, pos)
		case "dup":
			if pos < 0 {
				break
			}
			end := min(pos+ln, n)
			seg := append([]byte(nil), data[pos:end]...)
			data = append(data[:end], append(seg, data[end:]...)...)
			class = "dup:" + regionName(regs, c.total, pos)
		case "zero":
			if pos < 0 {
				break
			}
			for i := pos; i < min(pos+ln, n); i++ {
				data[i] = 0
			}
			class = "zero:" + regionName(regs, c.total, pos)
		case "ofs0":
			k := pickEntry(len(regs), e.E, func(i int) bool { return regs[i].typ == tOfs && regs[i].hdrEnd < n })
			if k < 0 {
				class = "ofs0:none"
				break
			}
			data[regs[k].hdrEnd] = 0
			class = "ofs-first-byte=0"
		case "junk":
			for i := 0; i < clamp(e.N, 1, 64); i++ {
				data = append(data, byte(e.V+i*37))
			}
			class = "junk-at-end"
		default:
			class = "unknown-edit"
		}
		c.classes = append(c.classes, class)
	}
	if p.Trailer == "fix" && len(data) >= 32 {
		s := sha1.Sum(data[:len(data)-20])
		copy(data[len(data)-20:], s[:])
	}
	c.data = data
	c.noop = bytes.Equal(data, bp.data)
	if !c.noop {
		fd := 0
		for fd < len(data) && fd < len(bp.data) && data[fd] == bp.data[fd] {
			fd++
		}
		c.inEntry = fd >= 12 && fd < len(bp.data)-20
	}
	return c
}

// resolvePos maps an edit's selector to an absolute offset in the current bytes.
func resolvePos(e Edit, regs []region, total, n int) int {
	if n <= 0 {
		return -1
	}
	lo, hi := 0, n
	var r *region
	if len(regs) > 0 {
		r = &regs[mod(e.E, len(regs))]
	}
	switch e.W {
	case "sig":
		lo, hi = 0, 4
	case "ver":
		lo, hi = 4, 8
	case "count":
		lo, hi = 8, 12
	case "trailer":
		lo, hi = total-20, total
	case "ehdr":
		if r != nil {
			lo, hi = r.off, r.hdrEnd
		}
	case "base":
		if r != nil && r.refEnd > r.hdrEnd {
			lo, hi = r.hdrEnd, r.refEnd
		} else if r != nil {
			lo, hi = r.off, r.hdrEnd
		}
	case "zhdr":
		if r != nil {
			lo, hi = r.refEnd, r.refEnd+2
		}
	case "ztail":
		if r != nil {
			lo, hi = r.end-4, r.end
		}
	case "zbody":
		if r != nil {
			lo, hi = r.refEnd+2, r.end-4
		}
	case "entry":
		if r != nil {
			lo, hi = r.off, r.end
		}
	case "bound":
		if r != nil {
			return clamp(r.off+mod(e.O, 3)-1, 0, n-1)
		}
	}
	if hi <= lo {
		hi = lo + 1
	}
	return clamp(lo+mod(e.O, hi-lo), 0, n-1)
}

func faultClass(p *Plan, c *corrupted) string {
	if c.noop || len(c.classes) == 0 {
		return "none"
	}
	cl := ""
	for _, k := range c.classes {
		if !strings.HasSuffix(k, ":none") && k != "unknown-edit" {
			cl = k
			break
		}
	}
	if cl == "" {
		cl = c.classes[0]
	}
	if p.Trailer == "fix" {
		cl += "+trailer-recomputed"
	}
	return cl
}

// ---------------------------------------------------------------- the simulated stream

var errBudget = errors.New("c09: read budget exceeded")

type chunkReader struct {
	data     []byte
	pos      int
	mode     string
	chunks   []int
	ci       int
	def      int
	chunkEnd int
	calls    int
	budget   int
	over     bool
	seeks    int
	splits   int
	floor    int // minimal delivery size (keeps byte-wise delivery of big packs into the PackWriter affordable)
}

func newChunkReader(data []byte, ck Chunking, floor int) *chunkReader {
	c := &chunkReader{data: data, mode: ck.Mode, def: ck.Def, floor: floor, budget: 200000 + 64*len(data)}
	for i, v := range ck.Chunks {
		if i >= 64 {
			break
		}
		c.chunks = append(c.chunks, clamp(v, 1, 1<<20))
	}
	return c
}

func (c *chunkReader) Read(p []byte) (int, error) {
	c.calls++
	if c.calls > c.budget {
		c.over = true
		return 0, errBudget
	}
	if len(p) == 0 {
		return 0, nil
	}
	if c.pos >= len(c.data) {
		return 0, io.EOF
	}
	if c.pos >= c.chunkEnd {
		switch {
		case c.mode == "one":
			c.chunkEnd = c.pos + 1
		case c.mode == "list" && c.ci < len(c.chunks):
			c.chunkEnd = c.pos + c.chunks[c.ci]
			c.ci++
		case c.mode == "list" && c.def > 0:
			c.chunkEnd = c.pos + c.def
		default:
			c.chunkEnd = len(c.data)
		}
		if c.chunkEnd < c.pos+c.floor {
			c.chunkEnd = c.pos + c.floor
		}
		if c.chunkEnd > len(c.data) {
			c.chunkEnd = len(c.data)
		}
	}
	n := min(c.chunkEnd-c.pos, len(p))
	copy(p, c.data[c.pos:c.pos+n])
	c.pos += n
	if n < len(p) && c.pos < len(c.data) {
		c.splits++
	}
	return n, nil
}

type seekChunkReader struct{ *chunkReader }

func (s seekChunkReader) Seek(off int64, whence int) (int64, error) {
	c := s.chunkReader
	c.seeks++
	if c.seeks > c.budget {
		c.over = true
		return 0, errBudget
	}
	var np int64
	switch whence {
	case io.SeekStart:
		np = off
	case io.SeekCurrent:
		np = int64(c.pos) + off
	case io.SeekEnd:
		np = int64(len(c.data)) + off
	}
	if np < 0 {
		return 0, errors.New("c09: negative seek")
	}
	if np > int64(len(c.data)) {
		c.pos = len(c.data)
	} else {
		c.pos = int(np)
	}
	c.chunkEnd = c.pos
	return np, nil
}

// writeSizes returns the sizes of successive Write calls for n bytes.
func writeSizes(n int, ck Chunking) []int {
	var out []int
	floor := 1
	if n > 8192 {
		floor = n / 4096 // keep 1-byte delivery of big packs affordable
	}
	rest := n
	i := 0
	for rest > 0 {
		sz := rest
		switch {
		case ck.Mode == "one":
			sz = 1
		case ck.Mode == "list" && i < len(ck.Chunks) && i < 64:
			sz = clamp(ck.Chunks[i], 1, 1<<20)
			i++
		case ck.Mode == "list" && ck.Def > 0:
			sz = ck.Def
		}
		sz = clamp(max(sz, floor), 1, rest)
		out = append(out, sz)
		rest -= sz
	}
	return out
}

// ---------------------------------------------------------------- running one path

const hugeCount = 1 << 20

// headerCount returns the object count of a stream whose 12-byte header go-git would accept.
func headerCount(data []byte) uint32 {
	if len(data) < 12 || string(data[:4]) != "PACK" || binary.BigEndian.Uint32(data[4:8]) != 2 {
		return 0
	}
	return binary.BigEndian.Uint32(data[8:12])
}

type repObj struct {
	id   oid
	off  int64
	typ  int
	size int64
}

type observer struct {
	count    int64
	hdrCalls int
	hdrs     []repObj
	objs     []repObj
	footer   *oid
}

func (o *observer) OnHeader(count uint32) error { o.count = int64(count); o.hdrCalls++; return nil }
func (o *observer) OnInflatedObjectHeader(t plumbing.ObjectType, size, pos int64) error {
	o.hdrs = append(o.hdrs, repObj{off: pos, typ: int(t), size: size})
	return nil
}
func (o *observer) OnInflatedObjectContent(h plumbing.Hash, pos int64, crc uint32, content []byte) error {
	r := repObj{id: toOID(h), off: pos, typ: -1, size: -1}
	if n := len(o.hdrs); n > 0 && o.hdrs[n-1].off == pos {
		r.typ, r.size = o.hdrs[n-1].typ, o.hdrs[n-1].size
	}
	o.objs = append(o.objs, r)
	return nil
}
func (o *observer) OnFooter(h plumbing.Hash) error { id := toOID(h); o.footer = &id; return nil }

type gotObj struct {
	key     oid // the name it was looked up / stored under
	hash    oid // its own Hash()
	typ     int
	size    int64
	data    []byte
	readErr error
	over    bool
	via     string
}

type pathResult struct {
	err      error
	pv       any
	stack    string
	hung     bool
	budget   bool
	setupErr string
	obs      *observer // parser paths
	checksum *oid
	idx      []repObj // packwriter: entries of the written idx (independent parse)
	idxErr   string
	objs     []gotObj
	iterIDs  []oid
	iterErr  error
	sizeErrs []string
	splits   int
	reads    int
	sampled  bool
	hugeCnt  uint32 // not executed: the header count would make idxfile.Writer.OnHeader allocate count*sizeof(Entry)
	perEntry uint64 // measured bytes allocated per announced object
}

func readObject(o plumbing.EncodedObject, key oid, via string) gotObj {
	g := gotObj{key: key, hash: toOID(o.Hash()), typ: int(o.Type()), size: o.Size(), via: via}
	rd, err := o.Reader()
	if err != nil {
		g.readErr = err
		return g
	}
	defer rd.Close()
	limit := g.size + 1
	if limit > maxRead || limit <= 0 {
		limit = maxRead
	}
	g.data, g.readErr = io.ReadAll(io.LimitReader(rd, limit))
	if int64(len(g.data)) > g.size && g.size >= 0 {
		g.over = true
	}
	return g
}

func guard(f func()) (pv any, stack string, hung bool) {
	done := make(chan struct{})
	go func() {
		defer func() {
			if r := recover(); r != nil {
				pv, stack = r, string(debug.Stack())
			}
			close(done)
		}()
		f()
	}()
	select {
	case <-done:
	case <-time.After(300 * time.Second):
		hung = true
		buf := make([]byte, 1<<20)
		stack = string(buf[:runtime.Stack(buf, true)])
	}
	return
}

func newFS(disk *simfs.Disk, actor string, high bool) *filesystem.Storage {
	return filesystem.NewStorageWithOptions(disk.FS("/g", actor), cache.NewObjectLRUDefault(), filesystem.Options{HighMemoryMode: high})
}

// parseIdx is an independent reader of a version-2 pack index.
func parseIdx(b []byte) ([]repObj, string) {
	if len(b) < 8+1024+40 || !bytes.Equal(b[:8], []byte{0xff, 't', 'O', 'c', 0, 0, 0, 2}) {
		return nil, "bad idx header"
	}
	n := int(binary.BigEndian.Uint32(b[8+255*4:]))
	need := 8 + 1024 + n*20 + n*4 + n*4 + 40
	if n < 0 || n > len(b) || len(b) < need {
		return nil, fmt.Sprintf("idx too short for %d entries", n)
	}
	out := make([]repObj, n)
	names := b[8+1024:]
	offs := b[8+1024+n*24:]
	for i := 0; i < n; i++ {
		copy(out[i].id[:], names[i*20:])
		o := binary.BigEndian.Uint32(offs[i*4:])
		if o&0x80000000 != 0 {
			return nil, "64-bit offset in idx"
		}
		out[i].off, out[i].typ, out[i].size = int64(o), -1, -1
	}
	return out, ""
}

func looseIDs(disk *simfs.Disk) []oid {
	var out []oid
	for _, f := range disk.List("/g/objects") {
		rel := strings.TrimPrefix(f.Path, "/g/objects/")
		if f.Kind != "file" || len(rel) != 41 || rel[2] != '/' {
			continue
		}
		if b, err := hex.DecodeString(rel[:2] + rel[3:]); err == nil && len(b) == 20 {
			var id oid
			copy(id[:], b)
			out = append(out, id)
		}
	}
	sort.Slice(out, func(i, j int) bool { return bytes.Compare(out[i][:], out[j][:]) < 0 })
	return out
}

// readBack reopens the repository on disk with fresh storages and reads every
// object named by the pack indexes and the loose object directories.
func readBack(disk *simfs.Disk, res *pathResult) {
	var ids []oid
	for _, f := range disk.List("/g/objects/pack") {
		if !strings.HasSuffix(f.Path, ".idx") {
			continue
		}
		b, _ := disk.ReadFile(f.Path)
		es, msg := parseIdx(b)
		if msg != "" {
			res.idxErr = msg
			continue
		}
		res.idx = append(res.idx, es...)
		name := filepath.Base(f.Path)
		if len(name) == len("pack-.idx")+40 {
			if raw, err := hex.DecodeString(name[5:45]); err == nil {
				var cs oid
				copy(cs[:], raw)
				res.checksum = &cs
			}
		}
		for _, e := range es {
			ids = append(ids, e.id)
		}
	}
	ids = append(ids, looseIDs(disk)...)
	sampled := false
	if len(ids) > 600 {
		// deep-chain packs: every read walks the chain; read a spread sample only
		var pick []oid
		for i := 0; i < 8; i++ {
			pick = append(pick, ids[i*(len(ids)-1)/7])
		}
		ids, sampled = pick, true
	}
	res.sampled = sampled
	st := newFS(disk, "r", false)
	for _, id := range ids {
		o, err := st.EncodedObject(plumbing.AnyObject, toHash(id))
		if err != nil {
			res.objs = append(res.objs, gotObj{key: id, readErr: err, via: "get"})
			continue
		}
		g := readObject(o, id, "get")
		res.objs = append(res.objs, g)
		if sz, err := st.EncodedObjectSize(toHash(id)); err == nil && g.readErr == nil && sz != int64(len(g.data)) {
			res.sizeErrs = append(res.sizeErrs, fmt.Sprintf("EncodedObjectSize(%s)=%d, object has %d bytes", id, sz, len(g.data)))
		}
	}
	st.Close()
	if sampled {
		return
	}
	st2 := newFS(disk, "i", false)
	it, err := st2.IterEncodedObjects(plumbing.AnyObject)
	if err == nil {
		err = it.ForEach(func(o plumbing.EncodedObject) error {
			id := toOID(o.Hash())
			res.iterIDs = append(res.iterIDs, id)
			res.objs = append(res.objs, readObject(o, id, "iter"))
			return nil
		})
	}
	res.iterErr = err
	st2.Close()
}

func memObjects(ms *memory.Storage, res *pathResult) {
	keys := make([]plumbing.Hash, 0, len(ms.Objects))
	for h := range ms.Objects {
		keys = append(keys, h)
	}
	sort.Slice(keys, func(i, j int) bool { return bytes.Compare(keys[i].Bytes(), keys[j].Bytes()) < 0 })
	for _, h := range keys {
		res.objs = append(res.objs, readObject(ms.Objects[h], toOID(h), "mem"))
	}
}

func runPath(path string, data []byte, pristine []byte, ck Chunking) *pathResult {
	res := &pathResult{}
	parts := strings.Split(path, "/")
	seek := parts[len(parts)-1] == "seek"
	floor := 0
	if parts[0] == "packwriter+reopen" && len(data) > 8192 {
		floor = len(data) / 4096
	}
	cr := newChunkReader(data, ck, floor)
	var rd io.Reader = cr
	if seek {
		rd = seekChunkReader{cr}
	}
	body := func() {
		switch parts[0] {
		case "parser":
			res.obs = &observer{}
			cs, err := packfile.NewParser(rd, packfile.WithScannerObservers(res.obs)).Parse()
			res.err = err
			if err == nil {
				id := toOID(cs)
				res.checksum = &id
			}
		case "parser+storage":
			res.obs = &observer{}
			if len(parts) > 1 && strings.HasPrefix(parts[1], "fs") {
				disk := simfs.NewDisk()
				st := newFS(disk, "w", parts[1] == "fs-high")
				if err := st.Init(); err != nil {
					res.setupErr = "init-failed"
					return
				}
				cs, err := packfile.NewParser(rd, packfile.WithStorage(st), packfile.WithScannerObservers(res.obs)).Parse()
				res.err = err
				st.Close()
				if err == nil {
					id := toOID(cs)
					readBack(disk, res)
					res.checksum = &id
				}
				return
			}
			ms := memory.NewStorage()
			cs, err := packfile.NewParser(rd, packfile.WithStorage(ms), packfile.WithScannerObservers(res.obs)).Parse()
			res.err = err
			if err == nil {
				id := toOID(cs)
				res.checksum = &id
			}
			memObjects(ms, res)
		case "update-storage":
			ms := memory.NewStorage()
			res.err = packfile.UpdateObjectStorage(ms, rd)
			memObjects(ms, res)
		case "packwriter+reopen", "at-rest+reopen":
			disk := simfs.NewDisk()
			st := newFS(disk, "w", false)
			if err := st.Init(); err != nil {
				res.setupErr = "init-failed"
				return
			}
			feed := data
			if parts[0] == "at-rest+reopen" {
				feed = pristine
			}
			if n := headerCount(feed); n > hugeCount {
				// PackWriter's indexer calls idxfile.(*Writer).OnHeader(n); when that allocates in
				// proportion to n (make(objects, 0, n)) a count up to 2^32-1 is a fatal,
				// unrecoverable out-of-memory. Measure the call with a moderate count first and do
				// not execute the real one if the allocation scales with the announced count.
				var m0, m1 runtime.MemStats
				runtime.ReadMemStats(&m0)
				_ = new(idxfile.Writer).OnHeader(1 << 19)
				runtime.ReadMemStats(&m1)
				res.perEntry = (m1.TotalAlloc - m0.TotalAlloc) >> 19
				if res.perEntry >= 16 {
					res.hugeCnt = n
					st.Close()
					return
				}
			}
			if len(parts) > 1 && parts[1] == "update" && parts[0] == "packwriter+reopen" {
				res.err = packfile.UpdateObjectStorage(st, rd)
			} else {
				w, err := st.PackfileWriter()
				if err != nil {
					res.setupErr = "packfile-writer-failed"
					return
				}
				pos := 0
				var werr error
				for _, sz := range writeSizes(len(feed), ck) {
					if _, werr = w.Write(feed[pos : pos+sz]); werr != nil {
						break
					}
					pos += sz
				}
				cerr := w.Close()
				res.err = werr
				if res.err == nil {
					res.err = cerr
				}
			}
			st.Close()
			if parts[0] == "at-rest+reopen" {
				if res.err != nil {
					res.setupErr = "valid-pack-not-stored"
					return
				}
				n := 0
				for _, f := range disk.List("/g/objects/pack") {
					if strings.HasSuffix(f.Path, ".pack") {
						disk.WriteFile(f.Path, data, 0o444)
						n++
					}
				}
				if n != 1 {
					res.setupErr = "valid-pack-not-stored"
					return
				}
			}
			if res.err == nil {
				readBack(disk, res)
			}
		default:
			res.setupErr = "unknown-path"
		}
	}
	res.pv, res.stack, res.hung = guard(body)
	res.budget = cr.over
	res.splits, res.reads = cr.splits, cr.calls
	return res
}

// ---------------------------------------------------------------- oracle

func errClass(err error) string {
	if err == nil {
		return "ok"
	}
	s := err.Error()
	switch {
	case errors.Is(err, errBudget):
		return "budget"
	case strings.Contains(s, "checksum mismatch"):
		return "checksum"
	case errors.Is(err, packfile.ErrInflatedSizeMismatch):
		return "inflated-exceeds-declared"
	case strings.Contains(s, "delta chain depth"):
		return "chain-depth"
	case strings.Contains(s, "invalid OFS delta offset"):
		return "ofs-offset"
	case strings.Contains(s, "invalid object type"):
		return "bad-type"
	case errors.Is(err, packfile.ErrBadSignature):
		return "bad-signature"
	case errors.Is(err, packfile.ErrUnsupportedVersion):
		return "bad-version"
	case errors.Is(err, packfile.ErrEmptyPackfile):
		return "empty"
	case strings.Contains(s, "zlib") || strings.Contains(s, "flate"):
		return "zlib"
	case errors.Is(err, packfile.ErrReferenceDeltaNotFound):
		return "ref-delta-not-found"
	case errors.Is(err, packfile.ErrInvalidDelta) || errors.Is(err, packfile.ErrDeltaCmd) || strings.Contains(s, "delta"):
		return "bad-delta"
	case errors.Is(err, plumbing.ErrObjectNotFound):
		return "object-not-found"
	case errors.Is(err, io.ErrUnexpectedEOF) || errors.Is(err, io.EOF):
		return "eof"
	case errors.Is(err, packfile.ErrMalformedPackfile):
		return "malformed"
	}
	return "other"
}

// acceptedTrailerOK reports whether some prefix of data is followed by its own
// sha1 (and, when the path reported a checksum, by that checksum).
func acceptedTrailerOK(data []byte, cs *oid) bool {
	if len(data) < 20 {
		return false
	}
	ok := func(p int) bool {
		s := sha1.Sum(data[:p])
		return bytes.Equal(s[:], data[p:p+20]) && (cs == nil || *cs == oid(s))
	}
	if ok(len(data) - 20) {
		return true
	}
	if cs != nil {
		for from := 0; ; {
			i := bytes.Index(data[from:], cs[:])
			if i < 0 {
				return false
			}
			if ok(from + i) {
				return true
			}
			from += i + 1
		}
	}
	h := sha1.New()
	for p := 0; p+20 <= len(data); p++ {
		if p >= 12 && bytes.Equal(h.Sum(nil), data[p:p+20]) {
			return true
		}
		h.Write(data[p : p+1])
	}
	return false
}

type run struct {
	p      *Plan
	out    *core.Outcome
	bp     *basePack
	c      *corrupted
	fc     string
	log    []string
	walked bool
	lay    *layout
	werr   *walkErr
}

func (x *run) logf(format string, a ...any) {
	if len(x.log) < 400 {
		x.log = append(x.log, fmt.Sprintf(format, a...))
	}
}

func (x *run) walker() (*layout, *walkErr) {
	if !x.walked {
		x.walked = true
		x.lay, x.werr = walk(x.c.data)
	}
	return x.lay, x.werr
}

// atRestSink turns verdicts into probes for the at-rest path: a stored pack
// that is modified on disk afterwards is not a "pack stream", and go-git (like
// git) does not re-hash packed objects on every read. What is served there is
// counted, not judged (DESIGN.md 11.10); panics and hangs stay verdicts.
type failer interface {
	Fail(sig, format string, a ...any)
}

type atRestSink struct{ out *core.Outcome }

func (s atRestSink) Fail(sig, format string, a ...any) {
	parts := strings.Split(sig, "|")
	kind := "?"
	if len(parts) >= 3 {
		kind = parts[2]
	}
	s.out.Probe("at-rest:unverified-object-served:" + kind)
}

func (x *run) checkObj(path string, g gotObj, sig func(string) string) bool {
	var out failer = x.out
	if strings.HasPrefix(path, "at-rest") {
		out = atRestSink{x.out}
	}
	if g.over {
		out.Fail(sig("inflation-exceeds-declared"), "%s: object %s (%s) declares %d bytes, its reader delivered more", path, g.key, g.via, g.size)
		return false
	}
	if h := objID(g.typ, g.data); h != g.key {
		out.Fail(sig("wrong-bytes-accepted"), "%s: object stored under %s (via %s; Hash()=%s, type %s, Size()=%d) reads %d bytes that hash to %s", path, g.key, g.via, g.hash, typeName(g.typ), g.size, len(g.data), h)
		return false
	}
	if g.hash != g.key {
		out.Fail(sig("id-mismatch"), "%s: object looked up as %s (via %s) reports Hash()=%s", path, g.key, g.via, g.hash)
		return false
	}
	if g.size != int64(len(g.data)) {
		out.Fail(sig("size-mismatch"), "%s: object %s (via %s) has Size()=%d and %d bytes", path, g.key, g.via, g.size, len(g.data))
		return false
	}
	return true
}

func (x *run) judge(path string, res *pathResult) {
	out, data := x.out, x.c.data
	// the signature names the ingestion path without its variant (the message has the variant)
	spath := strings.Split(path, "/")[0]
	sig := func(sym string) string { return "C09|" + spath + "|" + sym + "|" + x.fc }
	if res.pv != nil {
		st := res.stack
		if len(st) > 1500 {
			st = st[:1500]
		}
		out.Fail(sig("panic"), "%s: panic: %v\n%s", path, res.pv, st)
		x.logf("%s %s panic", path, x.fc)
		return
	}
	if res.hung {
		// wall-clock watchdog: not a deterministic judgement (machine load), so not a verdict
		if out.Inconclusive == "" {
			out.Inconclusive = "watchdog-300s:" + spath
		}
		x.logf("%s %s watchdog", path, x.fc)
		return
	}
	if res.budget {
		st := ""
		for _, l := range strings.Split(res.stack, "\n") {
			if strings.Contains(l, "go-git/v6/") && !strings.Contains(l, "verifsim") && len(st) < 3000 {
				st += "\n" + strings.TrimSpace(l)
			}
		}
		out.Fail(sig("hang-budget"), "%s: %d reads for a %d-byte stream (no return after 300 s: %v)%s", path, res.reads, len(data), res.hung, st)
		x.logf("%s %s hang", path, x.fc)
		return
	}
	if res.setupErr == "valid-pack-not-stored" && normBase(x.p.Base).Kind == "deep" && normBase(x.p.Base).N > 4095 {
		out.Probe("at-rest:over-deep-base-not-storable")
		x.logf("%s over-deep base not stored", path)
		return
	}
	if res.setupErr != "" {
		if out.Inconclusive == "" {
			out.Inconclusive = res.setupErr
		}
		x.logf("%s setup %s", path, res.setupErr)
		if os.Getenv("C09_DEBUG") != "" {
			fmt.Fprintf(os.Stderr, "c09: setup %s on %s: base %v chunk %+v err %v\n", res.setupErr, path, normBase(x.p.Base), x.p.Chunk, res.err)
		}
		return
	}
	if res.hugeCnt > 0 {
		{
			out.Fail("C09|"+spath+"|allocation-from-header-count|header-count", "%s: header announces %d objects in a %d-byte stream; idxfile.(*Writer).OnHeader allocates make(objects, 0, count) = %d bytes per announced object (measured) before any entry is read, i.e. %d MiB here (fatal out-of-memory for large counts; run skipped to keep the worker alive)", path, res.hugeCnt, len(data), res.perEntry, (uint64(res.hugeCnt)*res.perEntry)>>20)
		}
		x.logf("%s %s huge-count", path, x.fc)
		return
	}
	if res.splits > 0 {
		out.Probe("short-delivery")
	}
	if strings.HasPrefix(path, "at-rest") {
		x.judgeAtRest(path, res, sig)
		return
	}
	if res.err != nil {
		ec := errClass(res.err)
		out.Probe("rejected:" + ec)
		out.Probe("rejected-on:" + path)
		x.logf("%s %s rejected:%s", path, x.fc, ec)
		if ec == "other" {
			x.logf("   error text: %.120s", res.err.Error())
		}
		if x.c.noop && x.bp.bad {
			out.Probe("cyclic-ref-pair-rejected")
		} else if b := normBase(x.p.Base); x.c.noop && b.Kind == "deep" && b.N > 4095 && ec == "chain-depth" {
			out.Probe("over-deep-chain-rejected") // git accepts such a pack; go-git's limit is 4095 (one-directional property)
		} else if x.c.noop {
			out.Probe("valid-pack-rejected:" + path)
			x.logf("   VALID PACK REJECTED: %v", res.err)
			if os.Getenv("C09_DEBUG") != "" {
				fmt.Fprintf(os.Stderr, "c09: valid pack rejected on %s: base %v chunk %+v: %v\n", path, normBase(x.p.Base), x.p.Chunk, res.err)
			}
		}
		if x.p.Git {
			if v := gitIndexPack(data); v.avail && v.ok {
				out.Probe("git-accepts-what-go-git-rejects:" + ec)
			} else if v.avail {
				out.Probe("git-agrees-reject:" + v.class)
			}
		}
		return
	}

	// ---- accepted
	if len(data) == 0 && len(res.objs) == 0 {
		out.Probe("empty-stream-noop")
		x.logf("%s %s empty-noop", path, x.fc)
		return
	}
	var anomalies []string
	nothing := len(res.objs) == 0 && len(res.idx) == 0 && (res.obs == nil || len(res.obs.objs) == 0)
	if nothing && !acceptedTrailerOK(data, res.checksum) {
		anomalies = append(anomalies, fmt.Sprintf("the call returned success for a %d-byte stream but stored and reported nothing", len(data)))
		out.Probe("accepted-without-storing-anything")
	} else if !acceptedTrailerOK(data, res.checksum) {
		out.Fail(sig("stale-trailer-accepted"), "%s: accepted %d bytes although no prefix of them is followed by its sha1 (reported checksum %v)", path, len(data), res.checksum)
		x.logf("%s %s accepted stale-trailer", path, x.fc)
		return
	}
	stored := map[oid]bool{}
	for _, g := range res.objs {
		if g.readErr != nil {
			anomalies = append(anomalies, fmt.Sprintf("object %s unreadable via %s: %v", g.key, g.via, g.readErr))
			continue
		}
		if !x.checkObj(path, g, sig) {
			x.logf("%s %s accepted bad-object", path, x.fc)
			return
		}
		stored[g.key] = true
	}
	if len(res.sizeErrs) > 0 {
		out.Fail(sig("size-mismatch"), "%s: %s", path, res.sizeErrs[0])
		return
	}
	if res.iterErr != nil {
		anomalies = append(anomalies, fmt.Sprintf("iteration failed: %v", res.iterErr))
	}
	if res.idxErr != "" {
		anomalies = append(anomalies, "written idx unreadable: "+res.idxErr)
	}
	hdrCount := int64(-1)
	if len(data) >= 12 {
		hdrCount = int64(binary.BigEndian.Uint32(data[8:12]))
	}
	var reported []repObj
	what := "observer"
	if res.obs != nil {
		reported = res.obs.objs
		if res.obs.count != hdrCount && !(hdrCount == 0 && res.obs.hdrCalls == 0) {
			out.Fail(sig("count-mismatch"), "%s: OnHeader reported %d objects, the header says %d", path, res.obs.count, hdrCount)
			return
		}
		if int64(len(reported)) != hdrCount {
			out.Fail(sig("count-mismatch"), "%s: %d objects reported to the observer, the header says %d", path, len(reported), hdrCount)
			return
		}
	} else if strings.HasPrefix(path, "packwriter") {
		reported, what = res.idx, "idx"
	}
	lay, werr := x.walker()
	if werr != nil {
		anomalies = append(anomalies, fmt.Sprintf("the independent walker rejects these bytes: %s (%s)", werr.class, werr.msg))
		out.Probe("walker-rejects-accepted:" + werr.class)
	} else {
		ids := map[oid]bool{}
		dups := false
		for _, e := range lay.ents {
			if ids[e.id] {
				dups = true
			}
			ids[e.id] = true
		}
		for _, r := range reported {
			i, ok := lay.byOff[int(r.off)]
			if !ok || lay.ents[i].id != r.id {
				want := "no entry there"
				if ok {
					want = lay.ents[i].id.String()
				}
				out.Fail(sig("id-mismatch"), "%s: %s reports %s at offset %d, independent walker: %s", path, what, r.id, r.off, want)
				return
			}
			if r.typ >= 0 && (r.typ != lay.ents[i].rtyp || r.size != int64(len(lay.ents[i].data))) {
				out.Fail(sig("header-mismatch"), "%s: observer reports %s/%d for the object at %d, independent walker: %s/%d", path, typeName(r.typ), r.size, r.off, typeName(lay.ents[i].rtyp), len(lay.ents[i].data))
				return
			}
		}
		if reported != nil && len(reported) != len(lay.ents) && !dups {
			out.Fail(sig("count-mismatch"), "%s: %s lists %d objects, the pack has %d (header %d)", path, what, len(reported), len(lay.ents), hdrCount)
			return
		}
		if res.objs != nil || strings.Contains(path, "storage") || strings.HasPrefix(path, "packwriter") {
			for id := range stored {
				if !ids[id] {
					out.Fail(sig("id-mismatch"), "%s: storage yields object %s which the pack does not contain", path, id)
					return
				}
			}
			if len(anomalies) == 0 && !res.sampled {
				for _, e := range lay.ents {
					if !stored[e.id] {
						out.Fail(sig("count-mismatch"), "%s: pack accepted but object %s (entry at %d) is not in the storage (%d of %d present)", path, e.id, e.off, len(stored), len(ids))
						return
					}
				}
			}
		}
		if res.iterIDs != nil && res.iterErr == nil {
			seen := map[oid]bool{}
			for _, id := range res.iterIDs {
				seen[id] = true
			}
			for id := range ids {
				if !seen[id] {
					out.Fail(sig("count-mismatch"), "%s: iteration over the reopened storage misses %s", path, id)
					return
				}
			}
		}
		if lay.junk > 0 {
			out.Probe("accepted-with-junk-at-end")
		}
		if lay.maxDepth > 4000 {
			out.Probe(fmt.Sprintf("deep-chain-accepted"))
		}
	}
	if len(anomalies) > 0 || x.p.Git {
		v := gitIndexPack(data)
		switch {
		case !v.avail:
			out.Probe("git-unavailable")
		case v.ok:
			out.Probe("git-agrees-accept")
			for _, a := range anomalies {
				out.Probe("anomaly-but-git-accepts")
				x.logf("   anomaly (git accepts): %.160s", a)
			}
		case v.class == "junk-at-end":
			out.Probe("junk-at-end-accepted")
		case v.class == "unclassified":
			out.Probe("git-reject-unclassified")
			x.logf("   git rejects (unclassified): %.200s", v.msg)
		default:
			why := "no anomaly seen by the check"
			if len(anomalies) > 0 {
				why = anomalies[0]
			}
			out.Fail("C09|"+spath+"|accepted-what-git-rejects|"+v.class, "%s accepted %d bytes (fault %s); git index-pack: %s; %s", path, len(data), x.fc, v.msg, why)
			x.logf("%s %s accepted git-rejects:%s", path, x.fc, v.class)
			return
		}
	}
	if x.c.noop {
		out.Probe("accepted-valid:" + path)
	} else {
		out.Probe("accepted-clean")
		out.Probe("accepted-clean:" + x.fc)
	}
	x.logf("%s %s accepted-clean %d objects", path, x.fc, len(stored)+len(reported))
}

func (x *run) judgeAtRest(path string, res *pathResult, sig func(string) string) {
	out := x.out
	okN, errN := 0, 0
	idx := map[oid]bool{}
	for _, e := range res.idx {
		idx[e.id] = true
	}
	for _, g := range res.objs {
		if g.readErr != nil {
			errN++
			continue
		}
		if !x.checkObj(path, g, sig) {
			x.logf("%s %s bad-object", path, x.fc)
			return
		}
		if g.via == "iter" && !idx[g.key] {
			atRestSink{out}.Fail(sig("id-mismatch"), "")
			return
		}
		okN++
	}
	if len(res.sizeErrs) > 0 {
		atRestSink{out}.Fail(sig("size-mismatch"), "")
		return
	}
	o := "all-read"
	switch {
	case res.iterErr != nil && okN == 0:
		o = "all-rejected"
	case errN > 0 || res.iterErr != nil:
		o = "partly-rejected"
	}
	if x.c.noop && o != "all-read" {
		out.Probe("valid-pack-rejected:" + path)
	}
	out.Probe("at-rest:" + o)
	x.logf("%s %s %s ok=%d err=%d", path, x.fc, o, okN, errN)
}

// ---------------------------------------------------------------- Exec

func execPlan(t *testing.T, pa any) core.Outcome {
	p := pa.(*Plan)
	out := execCore(t, p)
	if out.Signature == "" || len(p.Edits) < 2 {
		return out
	}
	// several edits: attribute the violation to the one edit that reproduces the
	// same symptom on the same path alone, so that the signature names the cause
	part := func(sig string, i int) string {
		f := strings.Split(sig, "|")
		if i < len(f) {
			return f[i]
		}
		return ""
	}
	for i := range p.Edits {
		if i >= 6 {
			break
		}
		q := *p
		q.Edits = []Edit{p.Edits[i]}
		o2 := execCore(t, &q)
		if o2.Signature != "" && part(o2.Signature, 1) == part(out.Signature, 1) && part(o2.Signature, 2) == part(out.Signature, 2) {
			out.Signature = o2.Signature
			out.Message = o2.Message + fmt.Sprintf(" [edit %d of %d alone]", i+1, len(p.Edits))
			break
		}
	}
	return out
}

func execCore(t *testing.T, p *Plan) (out core.Outcome) {
	hooks.Deterministic(true)
	out.Faults = map[string]int{}
	x := &run{p: p, out: &out}
	defer func() {
		if rec := recover(); rec != nil {
			out.Fail("C09|harness|panic|"+x.fc, "panic outside a path: %v\n%s", rec, debug.Stack())
		}
		out.LogHash = core.HashStrings(x.log)
		out.Trace = x.log
		if len(out.Faults) == 0 {
			out.Faults = nil
		}
	}()
	bp := getBase(p.Base)
	if bp.err != "" {
		out.Inconclusive = bp.err
		return
	}
	x.bp = bp
	x.c = corrupt(p, bp)
	x.fc = faultClass(p, x.c)
	x.logf("base %v %d bytes %d entries; faults %v trailer=%s -> %d bytes noop=%v", normBase(p.Base), len(bp.data), len(bp.lay.ents), x.c.classes, p.Trailer, len(x.c.data), x.c.noop)
	out.Probe("base:" + normBase(p.Base).Kind)
	if !x.c.noop {
		for _, cl := range x.c.classes {
			out.Faults[cl]++
		}
	}
	out.NonTrivial = x.c.inEntry
	paths := p.Paths
	if len(paths) == 0 {
		paths = []string{"parser"}
	}
	seen := map[string]bool{}
	hasStructural := false
	for _, e := range p.Edits {
		hasStructural = hasStructural || isStructural(e.K)
	}
	for i, path := range paths {
		if i >= 4 || out.Signature != "" {
			break
		}
		if seen[path] {
			continue
		}
		seen[path] = true
		if (hasStructural || bp.bad) && strings.HasPrefix(path, "at-rest") {
			// a re-serialised pack is not "the stored pack, corrupted": at rest only byte-level faults
			out.Probe("at-rest-skipped-structural")
			continue
		}
		res := runPath(path, x.c.data, bp.data, p.Chunk)
		out.Steps += res.reads + len(res.objs)
		x.judge(path, res)
	}
	out.StateHash = core.HashStrings([]string{hex.EncodeToString(sha1Of(x.c.data)), strings.Join(paths, ",")})
	return out
}

func sha1Of(b []byte) []byte { s := sha1.Sum(b); return s[:] }

// ---------------------------------------------------------------- Gen / Expand

func genByteEdit(r *core.Rand) Edit {
	e := Edit{E: r.Intn(64), O: r.Intn(1 << 16), B: r.Intn(8)}
	e.N = r.Pick2(1, 1, 2, 4, 20, r.Range(1, 64), r.Range(1, 2000))
	switch x := r.Intn(100); {
	case x < 55:
		e.K = "flip"
		e.W = r.Pick("abs", "sig", "ver", "count", "count", "ehdr", "ehdr", "ehdr", "base", "base", "zhdr", "ztail", "ztail", "zbody", "trailer", "entry", "bound")
	case x < 70:
		e.K = "trunc"
		e.W = r.Pick("abs", "abs", "entry", "bound", "trailer", "ztail", "ehdr", "base")
	case x < 78:
		e.K, e.W = "drop", r.Pick("abs", "entry", "bound", "ztail", "ehdr", "trailer")
	case x < 84:
		e.K, e.W = "dup", r.Pick("abs", "entry", "bound", "ehdr")
	case x < 94:
		e.K, e.W = "zero", r.Pick("abs", "entry", "zbody", "ztail", "ehdr", "base", "trailer", "count")
	case x < 97:
		e.K = "ofs0"
	default:
		e.K, e.V = "junk", r.Intn(256)
	}
	return e
}

func genStructEdit(r *core.Rand) Edit {
	e := Edit{E: r.Intn(64), N: r.Intn(1 << 12), V: r.Intn(64)}
	switch x := r.Intn(100); {
	case x < 25:
		e.K = "size"
		e.N = r.Pick2(1, -1, 1, -1, 2, -2, 16, -16, 128, r.Range(1, 5000), -r.Range(1, 5000), 1<<20)
	case x < 45:
		e.K = "ofs"
	case x < 60:
		e.K = "ref"
	case x < 66:
		e.K = "swap"
	case x < 74:
		e.K = "count"
	case x < 78:
		e.K = "dupent"
	case x < 81:
		e.K = "dsrc"
	case x < 85:
		e.K = "dtgt"
	case x < 88:
		e.K = "doob"
	case x < 91:
		e.K = "dtrunc"
	case x < 94:
		e.K = "dins"
	case x < 96:
		e.K = "dtrail"
	default:
		e.K = "retype"
	}
	return e
}

func genPlan(r *core.Rand, tier string) any {
	p := &Plan{}
	thorough := tier == "thorough"
	enum := r.Chance(3, 100)
	sizes := func() string {
		switch x := r.Intn(100); {
		case x < 35:
			return "tiny"
		case x < 92:
			return "small"
		}
		return "large"
	}
	switch x := r.Intn(100); {
	case enum:
		switch r.Intn(4) {
		case 0:
			p.Base = Base{Kind: "fixture", N: r.Intn(2)}
		case 1:
			p.Base = Base{Kind: r.Pick("gen", "gen-ref"), Seed: r.Intn(48), Size: "tiny"}
		default:
			p.Base = Base{Kind: "hand", Seed: r.Intn(8), N: r.Intn(7)}
		}
	case x < 24:
		p.Base = Base{Kind: "gen", Seed: r.Intn(48), Size: sizes()}
	case x < 34:
		p.Base = Base{Kind: "gen-ref", Seed: r.Intn(48), Size: sizes()}
	case x < 38:
		p.Base = Base{Kind: "gen-flat", Seed: r.Intn(48), Size: sizes()}
	case x < 56:
		p.Base = Base{Kind: "hand", Seed: r.Intn(8), N: r.Intn(7)}
	case x < 72:
		p.Base = Base{Kind: "fixture", N: r.Pick2(0, 1, 1, 2, 2, 3, 3, 4, 4, 5, 6, 7)}
	case x < 86:
		p.Base = Base{Kind: "git", Seed: r.Intn(4), N: r.Intn(3), Size: r.Pick("small", "small", "small", "large")}
	case x < 88:
		p.Base = Base{Kind: "deep", N: r.Range(4090, 4100)}
	default:
		p.Base = Base{Kind: "gen", Seed: r.Intn(48), Size: "tiny"}
	}
	structural := false
	if !enum {
		n := r.Pick2(0, 1, 1, 1, 1, 1, 1, 1, 1, 1, 1, 1, 1, 2, 2, 2, 2, 2, 3, 3)
		for i := 0; i < n; i++ {
			if r.Chance(35, 100) {
				p.Edits = append(p.Edits, genStructEdit(r))
				structural = true
			} else {
				p.Edits = append(p.Edits, genByteEdit(r))
			}
		}
	}
	p.Trailer = r.Pick("stale", "fix")
	if structural && r.Chance(3, 5) {
		p.Trailer = "fix"
	}
	np := r.Pick2(1, 1, 2, 2, 3)
	if enum {
		np = 1
	}
	for i := 0; i < np; i++ {
		p.Paths = append(p.Paths, allPaths[r.Intn(len(allPaths))])
	}
	p.Chunk.Mode = r.Pick("one", "list", "list", "whole")
	if p.Chunk.Mode == "list" {
		for i, k := 0, r.Intn(13); i < k; i++ {
			p.Chunk.Chunks = append(p.Chunk.Chunks, r.Pick2(1, 2, 3, 4, 5, 8, 11, 12, 13, 19, 20, 21, r.Range(1, 64), r.Range(1, 5000)))
		}
		p.Chunk.Def = r.Pick2(0, 1, 2, 3, 7, 64, 512, 4095, 4096, 4097, 32768)
	}
	if thorough {
		p.Git = r.Chance(15, 100)
	} else {
		p.Git = r.Chance(3, 100)
	}
	if enum {
		p.Enum, p.Git = true, false
		a := r.Intn(8)
		p.EnumBits = []int{a, (a + 1 + r.Intn(7)) % 8}
	}
	return p
}

// expand enumerates every single-bit flip (thorough: all 8 bits, quick: the
// plan's 2 bits) and every truncation offset of a small pack, each with a
// stale and with a recomputed trailer.
func expand(t *testing.T, pa any, tier string) []any {
	p := pa.(*Plan)
	if !p.Enum {
		return []any{p}
	}
	bp := getBase(p.Base)
	if bp.err != "" || len(bp.data) > enumLimit {
		return []any{p}
	}
	bits := []int{}
	if tier == "thorough" {
		bits = []int{0, 1, 2, 3, 4, 5, 6, 7}
	} else {
		for _, b := range p.EnumBits {
			bits = append(bits, mod(b, 8))
		}
		if len(bits) == 0 {
			bits = []int{0, 7}
		}
	}
	out := []any{p}
	mk := func(e Edit, tr string) {
		c := *p
		c.Enum, c.EnumBits, c.Edits, c.Trailer = false, nil, []Edit{e}, tr
		out = append(out, &c)
	}
	for pos := 0; pos < len(bp.data); pos++ {
		for _, tr := range []string{"stale", "fix"} {
			for _, b := range bits {
				mk(Edit{K: "flip", W: "abs", O: pos, B: b}, tr)
			}
			mk(Edit{K: "trunc", W: "abs", O: pos}, tr)
		}
	}
	return out
}

func TestCheck(t *testing.T) {
	defer cleanupScratch()
	core.Main(t, core.Check{
		ID:    "C09",
		Level: "exploration", // plans (base pack, edits, paths, chunking) are sampled; only single-fault positions of packs <= 640 B are enumerated
		Rule: "plan = base pack (go-git encoder with OFS / REF deltas / no deltas over a generated universe of blobs 0 B..70 KB, trees, commits, tag; the same universe packed by real git repack with depth 50 / REF deltas / depth 1; 8 go-git-fixtures packs; 7 hand-serialised packs incl. REF-on-OFS, delta-before-base and a cyclic REF pair; OFS chains of depth 4090..4100) " +
			"x 0-3 edits (bit flip / truncate / drop / duplicate / zero-fill / junk at structure-biased offsets; declared size +-d, OFS offset 0/self/beyond/header/mid-entry/wrong-entry/overflow, REF base own/absent/wrong/later-delta, swap, count, duplicate entry, delta source/target size, copy out of bounds, retype) x trailer stale|recomputed " +
			"x 1-3 of 11 ingestion paths x chunking (1-byte, list+default, whole); packs <= 640 bytes with enum are expanded into every offset x {flip bit k (2 bits quick, 8 thorough), truncate} x {stale, recomputed}; " +
			"non-trivial = the first changed byte lies inside an object entry; distinct = distinct expanded plans",
		Assumptions: []string{
			"object ids by an independent stdlib sha1 over '<type> <len>\\0data'; pack structure by an independent strict walker (stdlib zlib, own varint and delta code), cross-validated against git verify-pack for git-made and fixture packs",
			"a path that returns an error has rejected the pack; objects a failing parser already handed to its storage are not judged (counted only)",
			"git index-pack (file mode) is the authority for 'git rejects for a structural reason'; 'pack has junk at the end' is counted, not judged, because index-pack --stdin leaves trailing bytes unread",
			"a recomputed trailer can turn an edit into a different valid pack: accepted packs are then judged only by self-certification, not by membership in the original universe",
			"at-rest+reopen (a stored pack corrupted on disk afterwards) is outside the statement's 'pack stream': objects served under ids they do not hash to are counted there (probe at-rest:unverified-object-served:*), only panics and unbounded reads are verdicts",
			"signatures name the ingestion path without its variant (seek / storage kind / feed); the message carries the variant. With several edits a violation is attributed to the single edit that reproduces it alone",
			"a header count above 2^20 is not fed to the PackWriter when idxfile.Writer.OnHeader is measured to allocate in proportion to the announced count (the real call would be a fatal out-of-memory): reported as allocation-from-header-count",
			"the 300 s wall-clock watchdog yields Inconclusive, never a verdict; the deterministic read budget (64 reads per stream byte + 200000) yields hang-budget",
			"packs with more than 600 objects (the 4090..4100 deep chains) are read back as a sample of 8 objects and not iterated",
		},
		Real: []string{"packfile.Scanner / Parser (all memory modes) / UpdateObjectStorage / patch-delta", "idxfile.Writer + encoder", "dotgit.PackWriter + syncedReader", "filesystem.ObjectStorage read paths (Packfile, FSObject, iterators, loose objects)", "memory.Storage", "packfile.Encoder (setup)"},
		Stub: []string{"the byte stream (chunkReader: planned delivery sizes, optional Seek, read budget)", "the disk (simfs)", "real git 2.39 as setup tool and judge"},
		Runs: map[string]int{"quick": 6000, "thorough": 40000}, // measured: 12000 quick plans = 579k expanded runs = 29 core-minutes (user+sys)
		NewPlan: func() any { return &Plan{} },
		Gen:     genPlan,
		Expand:  expand,
		Exec:    execPlan,
		RequiredProbes: []string{"rejected:checksum", "rejected:zlib", "rejected:inflated-exceeds-declared", "rejected:ofs-offset", "rejected:chain-depth", "accepted-clean", "short-delivery",
			"accepted-valid:parser", "accepted-valid:parser+storage/fs/seek", "accepted-valid:update-storage/mem", "accepted-valid:packwriter+reopen/write", "at-rest:all-read", "at-rest:partly-rejected",
			"base:git", "base:fixture", "base:deep", "deep-chain-accepted", "git-agrees-reject:trailer-mismatch"},
	})
}
