//go:build verif

// C30 — non-forced checkout and merge/keep resets never lose local changes.
//
// Same world as C25 (see checks/c25): a generated repository extended with
// extra commits from the plan (file<->dir and file<->symlink swaps, mode-only
// changes, deep paths, case variants, deletions, gitlinks); the state before
// the call is written by the harness straight into the image (worktree of the
// current commit, index, HEAD) and then dirtied by user modifications: edits
// of files that do / do not differ between current and target, staged and
// unstaged, deletions, mode changes, untracked files at paths the target adds,
// where the target needs a directory, inside directories the target removes,
// and nowhere near the switch.
//
// Operations: Checkout{Force:false} by branch / by hash / with Create,
// Checkout{Keep:true}, Reset{MergeReset}, Reset{KeepReset}.
//
// Oracle = conservation. Before the call every worktree path that is untracked
// or whose bytes / exec bit / link target differ from the HEAD version is
// recorded with its exact content. If the call returns nil every recorded path
// must still hold exactly that content in the worktree (a copy in the object
// store does not count). A call that returns an error is not judged (C29).
package c30

import (
	"bytes"
	"compress/zlib"
	"crypto/sha1"
	"encoding/hex"
	"encoding/json"
	"errors"
	"fmt"
	iofs "io/fs"
	"sort"
	"strconv"
	"strings"
	"testing"
	"time"

	git "github.com/go-git/go-git/v6"
	"github.com/go-git/go-git/v6/plumbing"
	"github.com/go-git/go-git/v6/plumbing/filemode"
	"github.com/go-git/go-git/v6/plumbing/format/index"
	"github.com/go-git/go-git/v6/plumbing/object"
	"github.com/go-git/go-git/v6/storage/filesystem"
	"github.com/go-git/go-git/v6/verifsim/core"
	"github.com/go-git/go-git/v6/verifsim/gen"
	"github.com/go-git/go-git/v6/verifsim/hooks"
	"github.com/go-git/go-git/v6/verifsim/porc"
	"github.com/go-git/go-git/v6/verifsim/simfs"
)

// ===================================================================
// shared world code (copied verbatim from checks/c25)
// ===================================================================

const (
	kFile = 0
	kExec = 1
	kLink = 2
	kSub  = 3
)

// Ent is one entry of a plan tree.
type Ent struct {
	P string `json:"p"`
	D string `json:"d"`
	K int    `json:"k"`
}

// TreeSpec is the tree of one extra commit as written in the plan.
type TreeSpec []Ent

type file struct {
	Data string // bytes, link target, or commit id (gitlink)
	K    int
}

type tree map[string]file

// Mod is one "user" modification of the worktree made before the operation.
// sameLenToken as Mod.Data of an "edit": replace the content by bytes of the same length.
const sameLenToken = "\x01same-length"

type Mod struct {
	Kind  string `json:"kind"`
	Path  string `json:"path"`
	Data  string `json:"data"`
	Stage bool   `json:"stage"`
}

func mod(a, n int) int {
	if n <= 0 {
		return 0
	}
	a %= n
	if a < 0 {
		a += n
	}
	return a
}

func validPath(p string) bool {
	if p == "" || len(p) > 96 {
		return false
	}
	parts := strings.Split(p, "/")
	if len(parts) > 8 {
		return false
	}
	for _, c := range parts {
		if c == "" || c == "." || c == ".." || strings.HasPrefix(strings.ToLower(c), ".git") {
			return false
		}
		for i := 0; i < len(c); i++ {
			ch := c[i]
			ok := ch >= 'a' && ch <= 'z' || ch >= 'A' && ch <= 'Z' || ch >= '0' && ch <= '9' || ch == '.' || ch == '_' || ch == '-'
			if !ok {
				return false
			}
		}
		if strings.HasSuffix(c, ".") {
			return false
		}
	}
	return true
}

func conflicts(t tree, p string) bool {
	if _, ok := t[p]; ok {
		return true
	}
	for q := range t {
		if strings.HasPrefix(q, p+"/") || strings.HasPrefix(p, q+"/") {
			return true
		}
	}
	return false
}

// sanitize turns a plan tree into a consistent model tree (total on any input).
func sanitize(spec TreeSpec, subHash func(int) string) tree {
	t := tree{}
	var subs []string
	for i, e := range spec {
		if i >= 24 {
			break
		}
		if !validPath(e.P) || conflicts(t, e.P) {
			continue
		}
		k := mod(e.K, 4)
		f := file{Data: e.D, K: k}
		if len(f.Data) > 200 {
			f.Data = f.Data[:200]
		}
		switch k {
		case kLink:
			if f.Data == "" || strings.ContainsAny(f.Data, "\x00\n") || len(f.Data) > 60 {
				f.Data = "a.txt"
			}
		case kSub:
			n, _ := strconv.Atoi(e.D)
			f.Data = subHash(n)
			subs = append(subs, e.P)
		}
		t[e.P] = f
	}
	if len(subs) > 0 {
		sort.Strings(subs)
		var b strings.Builder
		for _, s := range subs {
			fmt.Fprintf(&b, "[submodule %q]\n\tpath = %s\n\turl = https://example.invalid/%s.git\n", s, s, strings.ReplaceAll(s, "/", "-"))
		}
		t[".gitmodules"] = file{Data: b.String()}
	}
	if len(t) == 0 {
		t["a.txt"] = file{Data: "only\n"}
	}
	return t
}

func sortedPaths(t tree) []string {
	out := make([]string, 0, len(t))
	for p := range t {
		out = append(out, p)
	}
	sort.Strings(out)
	return out
}

func isDirIn(t tree, p string) bool {
	for q := range t {
		if strings.HasPrefix(q, p+"/") {
			return true
		}
	}
	return false
}

func blobID(data string) string {
	h := sha1.New()
	fmt.Fprintf(h, "blob %d\x00", len(data))
	h.Write([]byte(data))
	return hex.EncodeToString(h.Sum(nil))
}

func fileMode(f file) filemode.FileMode {
	switch f.K {
	case kExec:
		return filemode.Executable
	case kLink:
		return filemode.Symlink
	case kSub:
		return filemode.Submodule
	}
	return filemode.Regular
}

func entryHash(f file) string {
	if f.K == kSub {
		return f.Data
	}
	return blobID(f.Data)
}

// relation classifies how path p differs between trees a (current) and b (target).
func relation(p string, a, b tree) string {
	fa, inA := a[p]
	fb, inB := b[p]
	dirA, dirB := isDirIn(a, p), isDirIn(b, p)
	switch {
	case inA && dirB:
		return swapName(fa)
	case dirA && inB:
		return swapName(fb)
	case inA && inB:
		switch {
		case fa == fb:
			return "unchanged"
		case fa.K == kSub || fb.K == kSub:
			return "submodule"
		case fa.K == kLink && fb.K == kLink:
			return "symlink-retarget"
		case fa.K == kLink || fb.K == kLink:
			return "file-symlink-swap"
		case fa.Data == fb.Data:
			return "mode-only"
		}
		return "plain"
	case inA:
		if fa.K == kSub {
			return "submodule"
		}
		return "removed"
	case inB:
		if fb.K == kSub {
			return "submodule"
		}
		return "added"
	case dirA && dirB:
		return "dir-in-both"
	case dirA:
		return "removed-dir"
	case dirB:
		return "added-dir"
	}
	// not a path of either tree: look at the nearest ancestor either tree knows
	for q := parent(p); q != ""; q = parent(q) {
		if _, ok := b[q]; ok {
			return "under-target-file"
		}
		if _, ok := a[q]; ok {
			return "under-current-file"
		}
		if isDirIn(a, q) && !isDirIn(b, q) {
			return "in-removed-dir"
		}
	}
	return "elsewhere"
}

func swapName(f file) string {
	switch f.K {
	case kLink:
		return "symlink-dir-swap"
	case kSub:
		return "submodule"
	}
	return "file-dir-swap"
}

func parent(p string) string {
	i := strings.LastIndexByte(p, '/')
	if i < 0 {
		return ""
	}
	return p[:i]
}

var pairPriority = []string{"file-dir-swap", "symlink-dir-swap", "file-symlink-swap", "submodule", "mode-only", "case-variant", "symlink-retarget", "deep", "plain", "removed", "added", "same"}

// pairClasses lists the classes present in the pair (in priority order).
func pairClasses(a, b tree) []string {
	set := map[string]bool{}
	union := map[string]bool{}
	for p := range a {
		union[p] = true
	}
	for p := range b {
		union[p] = true
	}
	for p := range union {
		r := relation(p, a, b)
		if r == "unchanged" {
			continue
		}
		set[r] = true
		if strings.Count(p, "/") >= 4 {
			set["deep"] = true
		}
	}
	for p := range a {
		if _, ok := b[p]; ok {
			continue
		}
		for q := range b {
			if _, ok := a[q]; !ok && p != q && strings.EqualFold(p, q) {
				set["case-variant"] = true
			}
		}
	}
	if len(set) == 0 {
		set["same"] = true
	}
	var out []string
	for _, c := range pairPriority {
		if set[c] {
			out = append(out, c)
		}
	}
	return out
}

func trivialPair(cs []string) bool {
	for _, c := range cs {
		switch c {
		case "plain", "removed", "added", "same":
		default:
			return false
		}
	}
	return true
}

type commitInfo struct {
	Hash plumbing.Hash
	Tree tree
}

type prepared struct {
	disk    *simfs.Disk
	commits []commitInfo
	nModel  int
	err     string
}

var prepCache = map[string]*prepared{}

func fromGen(t map[string]gen.File) tree {
	out := tree{}
	for p, f := range t {
		k := kFile
		switch {
		case f.Link:
			k = kLink
		case f.Exec:
			k = kExec
		}
		out[p] = file{Data: f.Data, K: k}
	}
	return out
}

// modelTrees returns the trees of every commit of the world (model commits
// then extras) without touching a disk; Gen and Exec agree on it.
func modelTrees(seed uint64, repack bool, extra []TreeSpec) ([]tree, int) {
	// the generator calls this before any Exec: the base repository must be
	// built under the same settings as in Exec (pack names depend on it)
	hooks.Deterministic(true)
	b := porc.GetBase(seed, repack, false)
	if b.Err != nil || b.Model == nil {
		return nil, 0
	}
	var out []tree
	for _, c := range b.Model.Commits {
		out = append(out, fromGen(c.Tree))
	}
	n := len(out)
	subHash := func(i int) string { return b.Model.Commits[mod(i, n)].Hash.String() }
	for i, s := range extra {
		if i >= 4 {
			break
		}
		out = append(out, sanitize(s, subHash))
	}
	return out, n
}

type dnode struct {
	files map[string]file
	dirs  map[string]*dnode
}

func newDnode() *dnode { return &dnode{files: map[string]file{}, dirs: map[string]*dnode{}} }

func writeBlob(st *filesystem.Storage, data string) (plumbing.Hash, error) {
	obj := st.NewEncodedObject()
	obj.SetType(plumbing.BlobObject)
	w, err := obj.Writer()
	if err != nil {
		return plumbing.ZeroHash, err
	}
	if _, err := w.Write([]byte(data)); err != nil {
		return plumbing.ZeroHash, err
	}
	if err := w.Close(); err != nil {
		return plumbing.ZeroHash, err
	}
	return st.SetEncodedObject(obj)
}

func writeTreeObjects(st *filesystem.Storage, n *dnode) (plumbing.Hash, error) {
	var entries []object.TreeEntry
	names := make([]string, 0, len(n.files))
	for k := range n.files {
		names = append(names, k)
	}
	sort.Strings(names)
	for _, name := range names {
		f := n.files[name]
		var h plumbing.Hash
		if f.K == kSub {
			h = plumbing.NewHash(f.Data)
		} else {
			var err error
			h, err = writeBlob(st, f.Data)
			if err != nil {
				return plumbing.ZeroHash, err
			}
			if h.String() != blobID(f.Data) {
				return plumbing.ZeroHash, fmt.Errorf("blob id mismatch for %q", name)
			}
		}
		entries = append(entries, object.TreeEntry{Name: name, Mode: fileMode(f), Hash: h})
	}
	dnames := make([]string, 0, len(n.dirs))
	for k := range n.dirs {
		dnames = append(dnames, k)
	}
	sort.Strings(dnames)
	for _, name := range dnames {
		h, err := writeTreeObjects(st, n.dirs[name])
		if err != nil {
			return plumbing.ZeroHash, err
		}
		entries = append(entries, object.TreeEntry{Name: name, Mode: filemode.Dir, Hash: h})
	}
	sort.Sort(object.TreeEntrySorter(entries))
	obj := st.NewEncodedObject()
	if err := (&object.Tree{Entries: entries}).Encode(obj); err != nil {
		return plumbing.ZeroHash, err
	}
	return st.SetEncodedObject(obj)
}

func nest(t tree) *dnode {
	root := newDnode()
	for _, p := range sortedPaths(t) {
		parts := strings.Split(p, "/")
		n := root
		for _, c := range parts[:len(parts)-1] {
			if n.dirs[c] == nil {
				n.dirs[c] = newDnode()
			}
			n = n.dirs[c]
		}
		n.files[parts[len(parts)-1]] = t[p]
	}
	return root
}

// prepare builds (or returns the cached) repository image that holds the
// model commits plus the plan's extra commits, and a branch refs/heads/c<k>
// for every commit k. Extra commits are written with go-git's object encoders
// and storage (not with Worktree.Add/Commit, which have their own check).
func prepare(seed uint64, repack bool, extra []TreeSpec) *prepared {
	if len(extra) > 4 {
		extra = extra[:4]
	}
	js, _ := json.Marshal(extra)
	key := fmt.Sprintf("%d/%v/%s", seed, repack, js)
	if p, ok := prepCache[key]; ok {
		return p
	}
	if len(prepCache) > 48 {
		prepCache = map[string]*prepared{}
	}
	p := &prepared{}
	prepCache[key] = p
	b := porc.GetBase(seed, repack, false)
	if b.Err != nil || b.Model == nil || len(b.Model.Commits) == 0 {
		p.err = "setup-failed"
		return p
	}
	trees, n := modelTrees(seed, repack, extra)
	d := b.Disk.Clone()
	env, err := gen.Open(d, "/w", "setup", filesystem.Options{})
	if err != nil {
		p.err = "setup-open-failed"
		return p
	}
	st := env.Storage
	for i, c := range b.Model.Commits {
		p.commits = append(p.commits, commitInfo{Hash: c.Hash, Tree: trees[i]})
	}
	p.nModel = n
	parentHash := b.Model.Commits[mod(b.Model.HeadIdx, n)].Hash
	for i := n; i < len(trees); i++ {
		th, err := writeTreeObjects(st, nest(trees[i]))
		if err != nil {
			p.err = "setup-tree-write-failed"
			return p
		}
		sig := *gen.Sig(300 + i)
		obj := st.NewEncodedObject()
		c := &object.Commit{Author: sig, Committer: sig, Message: fmt.Sprintf("extra %d\n", i-n), TreeHash: th, ParentHashes: []plumbing.Hash{parentHash}}
		if err := c.Encode(obj); err != nil {
			p.err = "setup-commit-encode-failed"
			return p
		}
		h, err := st.SetEncodedObject(obj)
		if err != nil {
			p.err = "setup-commit-write-failed"
			return p
		}
		p.commits = append(p.commits, commitInfo{Hash: h, Tree: trees[i]})
		parentHash = h
	}
	for k, c := range p.commits {
		if err := st.SetReference(plumbing.NewHashReference(branchOf(k), c.Hash)); err != nil {
			p.err = "setup-ref-failed"
			return p
		}
	}
	_ = st.Close()
	p.disk = d
	return p
}

func branchOf(k int) plumbing.ReferenceName {
	return plumbing.ReferenceName(fmt.Sprintf("refs/heads/c%d", k))
}

// pick maps a plan number onto a commit index, counting from the END of the
// commit list (0 = last extra commit), so that small numbers name the extras.
func pick(x, n int) int { return n - 1 - mod(x, n) }

type node struct {
	Kind string // file | link
	Exec bool
	Data string // bytes or link target
}

func (n node) String() string {
	if n.Kind == "link" {
		return "link->" + n.Data
	}
	return fmt.Sprintf("file(exec=%v,%d bytes)", n.Exec, len(n.Data))
}

// snapshotWT reads every file and symlink of the worktree (outside .git)
// straight from the image; dirs lists the directories.
func snapshotWT(d *simfs.Disk) (files map[string]node, dirs map[string]bool, mtimes map[string]time.Time) {
	files, dirs, mtimes = map[string]node{}, map[string]bool{}, map[string]time.Time{}
	for _, e := range d.List("/w") {
		rel := strings.TrimPrefix(e.Path, "/w/")
		if rel == ".git" || strings.HasPrefix(rel, ".git/") {
			continue
		}
		switch e.Kind {
		case "dir":
			dirs[rel] = true
		case "link":
			files[rel] = node{Kind: "link", Data: e.Target}
			mtimes[rel] = e.MTime
		default:
			files[rel] = node{Kind: "file", Exec: e.Mode&0o100 != 0, Data: string(e.Data)}
			mtimes[rel] = e.MTime
		}
	}
	return
}

func nodeOf(f file) node {
	switch f.K {
	case kLink:
		return node{Kind: "link", Data: f.Data}
	case kExec:
		return node{Kind: "file", Exec: true, Data: f.Data}
	}
	return node{Kind: "file", Data: f.Data}
}

type idxEnt struct {
	Hash  string
	Mode  filemode.FileMode
	Size  uint32
	MTime time.Time
}

// world is one run's repository state under construction.
type world struct {
	d      *simfs.Disk
	idx    map[string]idxEnt
	prior  map[string]string // path -> class of the user modification that touched it
	trace  []string
	tick   time.Duration
	gap    int
	nprior int
}

func (w *world) logf(format string, args ...any) {
	if len(w.trace) < 400 {
		w.trace = append(w.trace, fmt.Sprintf(format, args...))
	}
}

func (w *world) advance() {
	if w.gap > 0 {
		w.d.Advance(time.Duration(w.gap) * w.tick)
	}
}

func (w *world) statEnt(p string) (idxEnt, bool) {
	abs := "/w/" + p
	switch w.d.Lookup(abs) {
	case "file":
		// List on a file path returns the file itself
		for _, e := range w.d.List(abs) {
			m := filemode.Regular
			if e.Mode&0o100 != 0 {
				m = filemode.Executable
			}
			return idxEnt{Hash: blobID(string(e.Data)), Mode: m, Size: uint32(len(e.Data)), MTime: e.MTime}, true
		}
	case "link":
		for _, e := range w.d.List(abs) {
			return idxEnt{Hash: blobID(e.Target), Mode: filemode.Symlink, Size: uint32(len(e.Target)), MTime: e.MTime}, true
		}
	}
	return idxEnt{}, false
}

func (w *world) writeLooseBlob(data string) {
	id := blobID(data)
	abs := "/w/.git/objects/" + id[:2] + "/" + id[2:]
	if w.d.Lookup(abs) != "" {
		return
	}
	var buf bytes.Buffer
	zw := zlib.NewWriter(&buf)
	fmt.Fprintf(zw, "blob %d\x00", len(data))
	zw.Write([]byte(data))
	zw.Close()
	_ = w.d.WriteFile(abs, buf.Bytes(), 0o444)
}

func (w *world) stage(p string) {
	e, ok := w.statEnt(p)
	if !ok {
		delete(w.idx, p)
		return
	}
	// a path cannot be in the index together with an entry above or below it
	for q := range w.idx {
		if strings.HasPrefix(q, p+"/") || strings.HasPrefix(p, q+"/") {
			delete(w.idx, q)
		}
	}
	w.idx[p] = e
	if n, _, _ := snapshotOne(w.d, p); n != nil {
		w.writeLooseBlob(n.Data)
	}
}

func snapshotOne(d *simfs.Disk, p string) (*node, time.Time, bool) {
	abs := "/w/" + p
	k := d.Lookup(abs)
	if k != "file" && k != "link" {
		return nil, time.Time{}, false
	}
	for _, e := range d.List(abs) {
		if e.Kind == "link" {
			return &node{Kind: "link", Data: e.Target}, e.MTime, true
		}
		return &node{Kind: "file", Exec: e.Mode&0o100 != 0, Data: string(e.Data)}, e.MTime, true
	}
	return nil, time.Time{}, false
}

// parentsFree: every proper ancestor of p is absent or a directory.
func parentsFree(d *simfs.Disk, p string) bool {
	for q := parent(p); q != ""; q = parent(q) {
		if k := d.Lookup("/w/" + q); k != "" && k != "dir" {
			return false
		}
	}
	return true
}

// materialise wipes the worktree and writes tree t, and fills the index map.
func (w *world) materialise(t tree) {
	d := w.d
	top := map[string]bool{}
	for _, e := range d.List("/w") {
		rel := strings.TrimPrefix(e.Path, "/w/")
		if i := strings.IndexByte(rel, '/'); i >= 0 {
			rel = rel[:i]
		}
		if rel != ".git" && rel != "" {
			top[rel] = true
		}
	}
	for name := range top {
		d.RemoveAllDirect("/w/" + name)
	}
	fs := d.FS("/w", "setup")
	for _, p := range sortedPaths(t) {
		f := t[p]
		switch f.K {
		case kLink:
			_ = d.PlantSymlink(f.Data, "/w/"+p)
		case kSub:
			_ = fs.MkdirAll(p, 0o755)
		case kExec:
			_ = d.WriteFile("/w/"+p, []byte(f.Data), 0o755)
		default:
			_ = d.WriteFile("/w/"+p, []byte(f.Data), 0o644)
		}
	}
	w.idx = map[string]idxEnt{}
	for _, p := range sortedPaths(t) {
		f := t[p]
		if f.K == kSub {
			w.idx[p] = idxEnt{Hash: f.Data, Mode: filemode.Submodule}
			continue
		}
		if e, ok := w.statEnt(p); ok {
			w.idx[p] = e
		}
	}
}

func (w *world) writeIndex() error {
	idx := &index.Index{Version: 2}
	names := make([]string, 0, len(w.idx))
	for p := range w.idx {
		names = append(names, p)
	}
	sort.Strings(names)
	for _, p := range names {
		e := w.idx[p]
		idx.Entries = append(idx.Entries, &index.Entry{Name: p, Hash: plumbing.NewHash(e.Hash), Mode: e.Mode, Size: e.Size, ModifiedAt: e.MTime, CreatedAt: e.MTime})
	}
	var buf bytes.Buffer
	if err := index.NewEncoder(&buf, sha1.New()).Encode(idx); err != nil {
		return err
	}
	return w.d.WriteFile("/w/.git/index", buf.Bytes(), 0o644)
}

// applyMod performs one user modification. staged selects the pass: staged
// modifications are made before the index is written, the others after.
func (w *world) applyMod(m Mod) {
	d := w.d
	p := m.Path
	if !validPath(p) {
		w.logf("mod %s %q: skipped (path)", m.Kind, p)
		return
	}
	abs := "/w/" + p
	kind := d.Lookup(abs)
	_, tracked := w.idx[p]
	data := m.Data
	if len(data) > 200 {
		data = data[:200]
	}
	class := ""
	switch m.Kind {
	case "edit":
		if kind != "file" || !tracked {
			break
		}
		n, _, _ := snapshotOne(d, p)
		mode := iofs.FileMode(0o644)
		if n.Exec {
			mode = 0o755
		}
		if data == sameLenToken {
			b := []byte(n.Data)
			for i := range b {
				b[i] ^= 1 // stays printable enough; same length, every byte differs
			}
			data = string(b)
		}
		if n.Data == data {
			data += "+"
		}
		_ = d.WriteFile(abs, []byte(data), mode)
		class = "edit"
	case "chmod":
		if kind != "file" || !tracked {
			break
		}
		n, _, _ := snapshotOne(d, p)
		mode := iofs.FileMode(0o755)
		if n.Exec {
			mode = 0o644
		}
		_ = d.WriteFile(abs, []byte(n.Data), mode)
		class = "chmod"
	case "delete":
		if (kind != "file" && kind != "link") || !tracked {
			break
		}
		d.RemoveAllDirect(abs)
		class = "delete"
	case "untracked", "untracked-link":
		if kind != "" || tracked || !parentsFree(d, p) {
			break
		}
		if m.Kind == "untracked-link" {
			if data == "" || strings.ContainsAny(data, "\x00\n") || len(data) > 60 {
				data = "a.txt"
			}
			if d.PlantSymlink(data, abs) != nil {
				break
			}
		} else {
			mode := iofs.FileMode(0o644)
			if strings.HasPrefix(data, "#!") {
				mode = 0o755
			}
			if d.WriteFile(abs, []byte(data), mode) != nil {
				break
			}
		}
		class = "untracked"
		if m.Stage {
			class = "add" // becomes staged-add below
		}
	case "rmcached":
		if !tracked || w.idx[p].Mode == filemode.Submodule {
			break
		}
		delete(w.idx, p)
		w.prior[p] = "rmcached"
		w.nprior++
		w.logf("mod rmcached %s: applied", p)
		return
	case "retype-link":
		if kind != "file" || !tracked {
			break
		}
		if data == "" || strings.ContainsAny(data, "\x00\n") || len(data) > 60 {
			data = "b.txt"
		}
		d.RemoveAllDirect(abs)
		_ = d.PlantSymlink(data, abs)
		class = "retype-link"
	case "retype-dir":
		if (kind != "file" && kind != "link") || !tracked {
			break
		}
		d.RemoveAllDirect(abs)
		_ = d.WriteFile(abs+"/inner.txt", []byte(data), 0o644)
		class = "retype-dir"
		w.prior[p+"/inner.txt"] = "retype-dir"
		if m.Stage {
			delete(w.idx, p)
			w.stage(p + "/inner.txt")
			w.prior[p+"/inner.txt"] = "staged-retype-dir"
		}
	case "relink":
		if kind != "link" || !tracked {
			break
		}
		if data == "" || strings.ContainsAny(data, "\x00\n") || len(data) > 60 {
			data = "b.txt"
		}
		if n, _, _ := snapshotOne(d, p); n != nil && n.Data == data {
			data += "x"
		}
		d.RemoveAllDirect(abs)
		_ = d.PlantSymlink(data, abs)
		class = "relink"
	}
	if class == "" {
		w.logf("mod %s %s: skipped (state)", m.Kind, p)
		return
	}
	if m.Stage {
		if class != "retype-dir" {
			w.stage(p)
		}
		class = "staged-" + class
	}
	if w.prior[p] != "staged-add" { // a later edit of a staged new file keeps the class of its origin
		w.prior[p] = class
	}
	w.nprior++
	w.logf("mod %s %s: applied as %s", m.Kind, p, class)
}

// priorClassFor names the user modification responsible for path p (the one
// that touched p itself, or something above or below it).
func (w *world) priorClassFor(p string) string {
	if c, ok := w.prior[p]; ok {
		return c
	}
	keys := make([]string, 0, len(w.prior))
	for k := range w.prior {
		keys = append(keys, k)
	}
	sort.Strings(keys)
	for _, k := range keys {
		if strings.HasPrefix(k, p+"/") || strings.HasPrefix(p, k+"/") {
			return w.prior[k] + "-nearby"
		}
	}
	return "untouched"
}

// buildState puts the repository into "commit cur checked out, then dirtied
// by mods". HEAD is symbolic to c<cur> unless detached.
func buildState(d *simfs.Disk, cur int, ci commitInfo, mods []Mod, detached bool, tickMs, gap int) *world {
	w := &world{d: d, prior: map[string]string{}, tick: time.Millisecond, gap: mod(gap, 4)}
	if tickMs > 0 {
		if tickMs > 2000 {
			tickMs = 2000
		}
		d.Tick = time.Duration(tickMs) * time.Millisecond
		w.tick = d.Tick
	}
	w.materialise(ci.Tree)
	w.advance()
	for i, m := range mods {
		if i >= 8 {
			break
		}
		if m.Stage || m.Kind == "rmcached" {
			w.applyMod(m)
		}
	}
	w.advance()
	if err := w.writeIndex(); err != nil {
		w.logf("index write failed: %v", err)
	}
	head := "ref: " + string(branchOf(cur)) + "\n"
	if detached {
		head = ci.Hash.String() + "\n"
	}
	_ = d.WriteFile("/w/.git/HEAD", []byte(head), 0o644)
	w.advance()
	for i, m := range mods {
		if i >= 8 {
			break
		}
		if !(m.Stage || m.Kind == "rmcached") {
			w.applyMod(m)
		}
	}
	w.advance()
	return w
}

func errKind(err error) string {
	switch {
	case err == nil:
		return "ok"
	case simfs.IsInjected(err):
		return "injected"
	case errors.Is(err, git.ErrLocalChanges):
		return "local-changes"
	case errors.Is(err, git.ErrUnstagedChanges):
		return "unstaged-changes"
	}
	for _, known := range []string{"is a directory", "not a directory", "file exists", "directory not empty", "submodule not found"} {
		if strings.Contains(err.Error(), known) {
			return strings.ReplaceAll(known, " ", "-")
		}
	}
	k := porc.ErrKind(err)
	k = strings.Map(func(r rune) rune {
		if r >= 'a' && r <= 'z' || r >= 'A' && r <= 'Z' || r == '-' {
			return r
		}
		return '-'
	}, k)
	if len(k) > 32 {
		k = k[:32]
	}
	return k
}

// ---- generators shared by both checks ----

var universe = []string{"a.txt", "b.txt", "dir/c.txt", "dir/sub/d.txt", "e.sh", "z/y/x.txt", "dir/e.txt", "p", "q/r", "deep/1/2/3/4/f.txt", "Readme.md", "link", "sub", "n.txt", "dir/sub/k/m.txt"}

func genContent(r *core.Rand, p string) string {
	// Sizes matter: go-git decides "unchanged" from (size, mtime, mode) before it hashes. A tenth of the contents are
	// empty (a stat-less index entry records size 0) and three tenths have a width that depends on the path only, so
	// that two versions of one path often have EQUAL size and different bytes.
	switch k := r.Intn(10); {
	case k == 0:
		return ""
	case k < 4:
		return fmt.Sprintf("%s v%03d\n", p, r.Intn(1000))
	}
	return fmt.Sprintf("%s v%d\n%s", p, r.Intn(1000), hex.EncodeToString(r.Bytes(r.Intn(12))))
}

func genEnt(r *core.Rand, p string) file {
	switch {
	case p == "link":
		return file{Data: r.Pick("a.txt", "dir", "dir/c.txt", "missing"), K: kLink}
	case p == "sub" && r.Chance(1, 2):
		return file{Data: strconv.Itoa(r.Intn(6)), K: kSub}
	case p == "e.sh" || r.Chance(1, 8):
		return file{Data: genContent(r, p), K: kExec}
	}
	return file{Data: genContent(r, p), K: kFile}
}

func genTree(r *core.Rand) tree {
	t := tree{}
	for _, p := range universe {
		if p == "sub" && !r.Chance(1, 5) {
			continue
		}
		if r.Chance(1, 2) && !conflicts(t, p) {
			t[p] = genEnt(r, p)
		}
	}
	if len(t) == 0 {
		t["a.txt"] = genEnt(r, "a.txt")
	}
	return t
}

func cloneTree(t tree) tree {
	n := tree{}
	for k, v := range t {
		n[k] = v
	}
	return n
}

func swapCase(p string) string {
	i := strings.LastIndexByte(p, '/') + 1
	b := []byte(p)
	for j := i; j < len(b); j++ {
		switch {
		case b[j] >= 'a' && b[j] <= 'z':
			b[j] -= 32
		case b[j] >= 'A' && b[j] <= 'Z':
			b[j] += 32
		}
	}
	return string(b)
}

// transform derives a neighbouring tree by 1-3 structural changes.
func transform(r *core.Rand, src tree) tree {
	t := cloneTree(src)
	for n := r.Range(1, 3); n > 0; n-- {
		paths := sortedPaths(t)
		if len(paths) == 0 {
			break
		}
		p := paths[r.Intn(len(paths))]
		f := t[p]
		switch r.Intn(13) {
		case 0, 1: // content
			if f.K == kFile || f.K == kExec {
				t[p] = file{Data: genContent(r, p), K: f.K}
			}
		case 2: // mode only
			if f.K == kFile {
				t[p] = file{Data: f.Data, K: kExec}
			} else if f.K == kExec {
				t[p] = file{Data: f.Data, K: kFile}
			}
		case 3: // delete
			if len(t) > 1 {
				delete(t, p)
			}
		case 4: // add
			q := universe[r.Intn(len(universe))]
			if !conflicts(t, q) {
				t[q] = genEnt(r, q)
			}
		case 5: // file -> dir
			if f.K != kSub {
				delete(t, p)
				t[p+"/q"] = file{Data: genContent(r, p), K: kFile}
				if r.Bool() {
					t[p+"/r/s.txt"] = file{Data: genContent(r, p), K: kFile}
				}
			}
		case 6: // dir -> file (or symlink)
			if i := strings.IndexByte(p, '/'); i > 0 {
				parts := strings.Split(p, "/")
				prefix := strings.Join(parts[:r.Range(1, len(parts)-1)], "/")
				for _, q := range paths {
					if strings.HasPrefix(q, prefix+"/") {
						delete(t, q)
					}
				}
				if r.Chance(1, 4) {
					t[prefix] = file{Data: r.Pick("z", "dir", "a.txt"), K: kLink}
				} else {
					t[prefix] = file{Data: genContent(r, prefix), K: kFile}
				}
			}
		case 7: // file -> symlink
			if f.K == kFile || f.K == kExec {
				t[p] = file{Data: r.Pick("a.txt", "b.txt", "dir", "z/y"), K: kLink}
			}
		case 8: // symlink -> file, or retarget
			if f.K == kLink {
				if r.Bool() {
					t[p] = file{Data: genContent(r, p), K: kFile}
				} else {
					t[p] = file{Data: f.Data + "x", K: kLink}
				}
			}
		case 9: // case variant
			q := swapCase(p)
			if q != p && f.K != kSub && !conflicts(t, q) {
				delete(t, p)
				t[q] = f
			}
		case 10: // gitlink add / remove / move
			if f.K == kSub {
				if r.Bool() {
					delete(t, p)
					if len(t) == 0 {
						t["a.txt"] = genEnt(r, "a.txt")
					}
				} else {
					t[p] = file{Data: strconv.Itoa(r.Intn(6)), K: kSub}
				}
			} else if r.Chance(1, 3) && !conflicts(t, "sub") {
				t["sub"] = file{Data: strconv.Itoa(r.Intn(6)), K: kSub}
			}
		case 11: // deep add
			q := fmt.Sprintf("deep/1/2/3/4/g%d.txt", r.Intn(3))
			if !conflicts(t, q) {
				t[q] = file{Data: genContent(r, q), K: kFile}
			}
		case 12: // delete a whole directory
			if i := strings.IndexByte(p, '/'); i > 0 {
				prefix := p[:i]
				for _, q := range paths {
					if strings.HasPrefix(q, prefix+"/") && len(t) > 1 {
						delete(t, q)
					}
				}
			}
		}
	}
	return t
}

func toSpec(t tree) TreeSpec {
	var s TreeSpec
	for _, p := range sortedPaths(t) {
		if p == ".gitmodules" {
			continue
		}
		s = append(s, Ent{P: p, D: t[p].Data, K: t[p].K})
	}
	return s
}

// genMods draws user modifications aimed at the interesting places of the
// (current, target) pair.
func genMods(r *core.Rand, cur, tgt tree, n int) []Mod {
	var mods []Mod
	curPaths := sortedPaths(cur)
	var changed, added, removed []string
	for _, p := range curPaths {
		if f, ok := tgt[p]; !ok {
			removed = append(removed, p)
		} else if f != cur[p] {
			changed = append(changed, p)
		}
	}
	for _, p := range sortedPaths(tgt) {
		if _, ok := cur[p]; !ok {
			added = append(added, p)
		}
	}
	pickFrom := func(ls ...[]string) string {
		var nonEmpty [][]string
		for _, l := range ls {
			if len(l) > 0 {
				nonEmpty = append(nonEmpty, l)
			}
		}
		if len(nonEmpty) == 0 {
			return "a.txt"
		}
		l := nonEmpty[r.Intn(len(nonEmpty))]
		return l[r.Intn(len(l))]
	}
	tracked := func() string {
		if r.Bool() {
			return pickFrom(changed, removed)
		}
		return pickFrom(curPaths)
	}
	for i := 0; i < n; i++ {
		m := Mod{Stage: r.Chance(1, 3)}
		switch k := r.Intn(20); {
		case k < 5:
			m.Kind, m.Path = "edit", tracked()
			m.Data = fmt.Sprintf("local edit %d\n", r.Intn(1000))
			switch r.Intn(8) {
			case 0:
				m.Data = "" // truncated by the user
			case 1, 2:
				m.Data = sameLenToken // same length as the current content, different bytes
			}
			if f, ok := tgt[m.Path]; ok && r.Chance(1, 6) {
				m.Data = f.Data // the user's content equals the target's
			}
		case k < 7:
			m.Kind, m.Path = "chmod", tracked()
		case k < 9:
			m.Kind, m.Path = "delete", tracked()
		case k < 15:
			m.Kind = "untracked"
			m.Data = fmt.Sprintf("untracked %d\n", r.Intn(1000))
			if r.Chance(1, 8) {
				m.Data = "" // an empty stale file
			}
			switch r.Intn(7) {
			case 0:
				m.Path = r.Pick("untracked.txt", "un/tracked.txt", "dir/untracked.tmp", "zz/deep/er/u.txt")
			case 1: // a path the target adds
				m.Path = pickFrom(added)
				if f, ok := tgt[m.Path]; ok && r.Chance(1, 4) {
					m.Data = f.Data
				}
			case 2: // inside a directory the target removes (or just changes)
				q := pickFrom(removed, removed, curPaths)
				if d := parent(q); d != "" {
					m.Path = d + "/untracked.tmp"
				} else {
					m.Path = "untracked2.txt"
				}
			case 3: // where the target needs a directory
				q := pickFrom(added)
				parts := strings.Split(q, "/")
				if len(parts) > 1 {
					m.Path = strings.Join(parts[:r.Range(1, len(parts)-1)], "/")
				} else {
					m.Path = q
				}
			case 4: // below a file the target adds
				m.Path = pickFrom(added) + "/under.txt"
			case 5: // case variant
				m.Path = swapCase(pickFrom(added, curPaths))
			case 6: // beside a tracked file in a kept directory
				q := pickFrom(curPaths)
				if d := parent(q); d != "" {
					m.Path = d + "/beside.txt"
				} else {
					m.Path = "beside.txt"
				}
			}
		case k < 16:
			m.Kind, m.Path, m.Data = "untracked-link", r.Pick("ulink", "dir/ulink", pickFrom(added)), r.Pick("a.txt", "dir", "nowhere")
		case k < 17:
			m.Kind, m.Path = "rmcached", tracked()
		case k < 18:
			m.Kind, m.Path, m.Data = "retype-link", tracked(), r.Pick("a.txt", "dir", "b.txt")
		case k < 19:
			m.Kind, m.Path, m.Data = "retype-dir", tracked(), "inner\n"
		default:
			m.Kind, m.Path, m.Data = "relink", tracked(), r.Pick("b.txt", "dir/sub", "gone")
		}
		mods = append(mods, m)
	}
	return mods
}

// ===================================================================
// C30 proper
// ===================================================================

type Plan struct {
	RepoSeed uint64     `json:"repo_seed"`
	Repack   bool       `json:"repack"`
	TickMs   int        `json:"tick_ms"`
	Gap      int        `json:"gap"`
	Extra    []TreeSpec `json:"extra"`
	From     int        `json:"from"` // counted from the end of the commit list
	To       int        `json:"to"`
	Detached bool       `json:"detached"`
	Prior    []Mod      `json:"prior"`
	Op       int        `json:"op"`
}

var opNames = []string{"checkout-branch", "checkout-hash", "checkout-create", "checkout-keep", "checkout-keep-create", "reset-merge", "reset-keep"}

func genPlan(r *core.Rand, tier string) any {
	p := &Plan{RepoSeed: r.Uint64() % 48, Repack: r.Bool(), TickMs: []int{0, 1, 1000}[r.Intn(3)], Gap: r.Intn(3)}
	if tier == "thorough" {
		p.RepoSeed = r.Uint64() % 2048
	}
	t1 := genTree(r)
	t2 := transform(r, t1)
	p.Extra = []TreeSpec{toSpec(t1), toSpec(t2)}
	if r.Chance(1, 4) {
		p.Extra = append(p.Extra, toSpec(transform(r, t2)))
	}
	switch k := r.Intn(10); {
	case k < 4:
		p.From, p.To = 1, 0
	case k < 8:
		p.From, p.To = 0, 1
	case k < 9:
		p.From, p.To = r.Intn(10), r.Intn(10)
	default:
		p.From = r.Intn(3)
		p.To = p.From
	}
	p.Detached = r.Chance(1, 5)
	p.Op = []int{0, 0, 1, 1, 2, 3, 4, 5, 5, 5, 6, 6, 6}[r.Intn(13)]
	trees, _ := modelTrees(p.RepoSeed, p.Repack, p.Extra)
	if len(trees) > 0 && !r.Chance(1, 12) {
		cur, tgt := trees[pick(p.From, len(trees))], trees[pick(p.To, len(trees))]
		p.Prior = genMods(r, cur, tgt, r.Range(1, 3))
	}
	return p
}

// relationName renders relation() in the vocabulary of C30's signatures.
func relationName(p string, cur, tgt tree) string {
	switch r := relation(p, cur, tgt); r {
	case "unchanged":
		return "target-keeps-path"
	case "plain", "mode-only", "file-symlink-swap", "symlink-retarget", "submodule":
		return "target-changes-path"
	case "removed":
		return "target-removes-path"
	case "added":
		return "target-adds-path"
	case "in-removed-dir":
		return "target-removes-dir"
	case "elsewhere":
		return "target-lacks-path"
	default:
		// the path, something above it or something below it is a file on one
		// side and a directory on the other (file-dir-swap, symlink-dir-swap,
		// added-dir, removed-dir, dir-in-both, under-target-file, under-current-file)
		return "target-type-conflict"
	}
}

type recorded struct {
	class string
	n     node
}

func execPlan(t *testing.T, pa any) (out core.Outcome) {
	p := pa.(*Plan)
	hooks.Deterministic(true)
	pre := prepare(p.RepoSeed, p.Repack, p.Extra)
	if pre.err != "" {
		out.Inconclusive = pre.err
		return out
	}
	n := len(pre.commits)
	from, to := pick(p.From, n), pick(p.To, n)
	opKind := mod(p.Op, len(opNames))
	op := opNames[opKind]
	cur, tgt := pre.commits[from], pre.commits[to]
	d := pre.disk.Clone()
	w := buildState(d, from, cur, p.Prior, p.Detached, p.TickMs, p.Gap)
	w.logf("state: commit #%d checked out (detached=%v), target #%d, op %s, %d user modification(s)", from, p.Detached, to, op, w.nprior)
	defer func() {
		out.Trace = w.trace
		out.LogHash = core.HashStrings(w.trace)
		out.StateHash = d.Digest("/w", nil)
		out.Steps = 1 + w.nprior
	}()

	pcs := pairClasses(cur.Tree, tgt.Tree)
	for _, c := range pcs {
		out.Probe("pair:" + c)
	}
	if w.nprior == 0 {
		out.Probe("prior:clean")
	}
	{
		keys := make([]string, 0, len(w.prior))
		for k := range w.prior {
			keys = append(keys, k)
		}
		sort.Strings(keys)
		for _, k := range keys {
			out.Probe("prior:" + w.prior[k])
		}
	}
	out.NonTrivial = !trivialPair(pcs) || w.nprior > 0

	// ---- record every uncommitted piece of content, straight from the image
	preFiles, _, _ := snapshotWT(d)
	preIdx, decodable := porc.DecodeIndexOnDisk(d)
	if !decodable || preIdx == nil {
		out.Inconclusive = "setup-index-undecodable"
		return out
	}
	idx := map[string]*index.Entry{}
	for _, e := range preIdx.Entries {
		idx[e.Name] = e
	}
	rec := map[string]recorded{}
	for path, nd := range preFiles {
		e, tracked := idx[path]
		if !tracked {
			if hf, ok := cur.Tree[path]; ok && hf.K != kSub && nodeOf(hf) == nd {
				// removed from the index only: the file still holds exactly what
				// HEAD has committed, so there is no uncommitted content in it
				out.Probe("not-recorded:untracked-equals-head")
				continue
			}
			class := "untracked-file"
			for i := strings.IndexByte(path, '/'); i >= 0; {
				if _, under := idx[path[:i]]; under {
					// the user replaced a tracked FILE by a directory; this is content inside it (its own
					// class: what happens to it is decided by how the switch treats the missing file above it,
					// not by the untracked-overwrite rule)
					class = "untracked-under-tracked-file"
					break
				}
				j := strings.IndexByte(path[i+1:], '/')
				if j < 0 {
					break
				}
				i += 1 + j
			}
			rec[path] = recorded{class, nd}
			continue
		}
		wtHash, wtMode := blobID(nd.Data), filemode.Regular
		switch {
		case nd.Kind == "link":
			wtMode = filemode.Symlink
		case nd.Exec:
			wtMode = filemode.Executable
		}
		hf, inHead := cur.Tree[path]
		idxIsHead := inHead && entryHash(hf) == e.Hash.String() && fileMode(hf) == e.Mode
		switch {
		case wtHash == e.Hash.String() && wtMode == e.Mode:
			if !idxIsHead {
				rec[path] = recorded{"staged-edit", nd}
			}
		case wtHash == e.Hash.String():
			rec[path] = recorded{"mode-change", nd}
		default:
			rec[path] = recorded{"unstaged-edit", nd}
		}
	}
	var deleted []string // tracked (index or HEAD) paths absent from the worktree
	{
		seen := map[string]bool{}
		for path, e := range idx {
			if _, ok := preFiles[path]; !ok && e.Mode != filemode.Submodule {
				seen[path] = true
			}
		}
		for path, f := range cur.Tree {
			if _, ok := preFiles[path]; !ok && f.K != kSub {
				seen[path] = true
			}
		}
		for path := range seen {
			deleted = append(deleted, path)
		}
		sort.Strings(deleted)
	}
	paths := make([]string, 0, len(rec))
	for path := range rec {
		paths = append(paths, path)
	}
	sort.Strings(paths)
	for _, path := range paths {
		w.logf("recorded %s %s (%s) [%s]", rec[path].class, path, rec[path].n, relationName(path, cur.Tree, tgt.Tree))
	}

	env, err := gen.Open(d, "/w", "op", filesystem.Options{})
	if err != nil {
		out.Inconclusive = "setup-open-failed"
		return out
	}
	defer func() { _ = env.Storage.Close() }()
	wt, err := env.Repo.Worktree()
	if err != nil {
		out.Inconclusive = "setup-worktree-failed"
		return out
	}
	newBranch := plumbing.ReferenceName("refs/heads/nb")
	switch opKind {
	case 0:
		err = wt.Checkout(&git.CheckoutOptions{Branch: branchOf(to)})
	case 1:
		err = wt.Checkout(&git.CheckoutOptions{Hash: tgt.Hash})
	case 2:
		err = wt.Checkout(&git.CheckoutOptions{Branch: newBranch, Create: true, Hash: tgt.Hash})
	case 3:
		err = wt.Checkout(&git.CheckoutOptions{Branch: branchOf(to), Keep: true})
	case 4:
		err = wt.Checkout(&git.CheckoutOptions{Branch: newBranch, Create: true, Hash: tgt.Hash, Keep: true})
	case 5:
		err = wt.Reset(&git.ResetOptions{Mode: git.MergeReset, Commit: tgt.Hash})
	case 6:
		err = wt.Reset(&git.ResetOptions{Mode: git.KeepReset, Commit: tgt.Hash})
	}
	w.logf("%s -> %s", op, errKind(err))
	postFiles, _, _ := snapshotWT(d)

	outcome := "ok"
	if err != nil {
		outcome = "refused:" + errKind(err)
	}
	out.Probe("outcome:" + op + ":" + outcome)
	for _, path := range paths {
		r := rec[path]
		rel := relationName(path, cur.Tree, tgt.Tree)
		got, ok := postFiles[path]
		kept := ok && got == r.n
		if err != nil {
			out.Probe("refused-with:" + r.class + ":" + rel)
			if !kept {
				// the statement is satisfied by a refusal; what a refused call
				// may have changed is C29's subject (tracked files) — counted here
				out.Probe("refused-but-changed:" + r.class + ":" + rel)
				w.logf("note: %s returned an error and %q (%s) changed", op, path, r.class)
			}
			continue
		}
		if kept {
			out.Probe("ok-preserved:" + r.class + ":" + rel)
			continue
		}
		now := "is gone"
		if ok {
			now = "is now " + got.String()
			if got.Kind == "file" {
				now += fmt.Sprintf(" %q", clip(got.Data))
			}
		}
		was := r.n.String()
		if r.n.Kind == "file" {
			was += fmt.Sprintf(" %q", clip(r.n.Data))
		}
		w.logf("LOST %s %s: was %s, %s", r.class, path, was, now)
		out.Fail(fmt.Sprintf("C30|%s|lost:%s|%s", op, r.class, rel),
			"%s from commit #%d to #%d returned nil, but the %s at %q (%s) was %s and %s; prior modification: %s",
			op, from, to, strings.ReplaceAll(r.class, "-", " "), path, rel, was, now, w.priorClassFor(path))
	}
	if err == nil {
		for _, path := range deleted {
			if _, ok := postFiles[path]; ok {
				// The statement speaks about content that would be discarded; a
				// deletion restored by the switch discards nothing. Counted only.
				out.Probe("probe:deleted-file-resurrected:" + relationName(path, cur.Tree, tgt.Tree))
				w.logf("note: deleted %q is back after %s", path, op)
			} else {
				out.Probe("ok-deletion-kept:" + relationName(path, cur.Tree, tgt.Tree))
			}
		}
	}
	return out
}

func clip(s string) string {
	if len(s) > 48 {
		return s[:48] + "..."
	}
	return s
}

func TestCheck(t *testing.T) {
	core.Main(t, core.Check{
		ID:    "C30",
		Level: "exploration",
		Rule: "plan = generated repository x 2-3 extra commits with generated trees (second derived from the first by 1-3 of: content change, exec-bit flip, deletion, addition, file->dir, dir->file/symlink, file<->symlink, symlink retarget, case-variant rename, gitlink add/remove/move, deep path, directory removal) x (current, target) pair (mostly the two extras in either order, sometimes model commits or current==target) x attached/detached HEAD x mtime tick (1ns/1ms/1s) and clock gap (0-2 ticks) x 0-3 local modifications (edit of a file the target changes / keeps / removes, sometimes to exactly the target's bytes; chmod; deletion; untracked file at a fresh path / at a path the target adds / inside a directory the target removes / where the target needs a directory / below a file the target adds / case variant; untracked symlink; removal from the index only; type change; each staged or unstaged) x operation (Checkout without Force by branch / hash / Create, Checkout Keep by branch / Create, Reset Merge, Reset Keep); " +
			"every worktree path that is untracked or differs from HEAD is recorded before the call and must be byte-, mode- and target-identical after a call that returned nil; non-trivial = the pair is not plain/same or there is a local modification",
		Assumptions: []string{"the state before the call (worktree files, index, HEAD, staged blobs) is written by the harness directly into the image",
			"a staged change counts as preserved only if its content is still in the worktree (not: in the object store)",
			"a call that returns an error satisfies the statement; what it may have changed is counted (refused-but-changed) and left to C29",
			"a deleted tracked file that the switch restores is counted as a probe, not a violation: no content is discarded",
			"POSIX name semantics only"},
		Real:    []string{"Worktree.Checkout (Force=false, Keep) / Worktree.Reset (MergeReset, KeepReset)", "containsUnstagedChanges, checkKeepResetConflicts, resetIndex, resetWorktree, resetWorktreeToTree", "merkletrie filesystem/index noders", "storage/filesystem"},
		Stub:    []string{"disk (simfs)", "clock (simfs manual clock)"},
		Runs:    map[string]int{"quick": 24000, "thorough": 600000},
		NewPlan: func() any { return &Plan{} },
		Gen:     genPlan,
		Exec:    execPlan,
		RequiredProbes: []string{"pair:file-dir-swap", "pair:file-symlink-swap", "pair:mode-only", "pair:plain", "pair:same", "pair:deep", "pair:case-variant",
			"prior:edit", "prior:staged-edit", "prior:chmod", "prior:delete", "prior:staged-delete", "prior:untracked", "prior:staged-add", "prior:rmcached",
			"outcome:checkout-branch:ok", "outcome:checkout-branch:refused:unstaged-changes", "outcome:checkout-keep:ok", "outcome:reset-merge:ok", "outcome:reset-merge:refused:unstaged-changes",
			"outcome:reset-keep:ok", "outcome:reset-keep:refused:local-changes",
			"ok-preserved:untracked-file:target-lacks-path", "ok-preserved:untracked-file:target-removes-dir", "refused-with:untracked-file:target-adds-path", "refused-with:unstaged-edit:target-keeps-path", "refused-with:unstaged-edit:target-changes-path", "probe:deleted-file-resurrected:target-keeps-path"},
	})
}
