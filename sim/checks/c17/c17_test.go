//go:build verif

// C17 — all storage backends behave like the same abstract repository.
//
// One plan = one history of storage API calls (<= 30) plus a list of
// filesystem option combinations. The SAME history is executed against
// memory.NewStorage() and against filesystem.NewStorageWithOptions on a
// simulated disk for every option combination of the plan
// {ExclusiveAccess, UseInMemoryIdx, LargeObjectThreshold 0/1/64, small object
// LRU, no-op IndexCache, fdpool.New(1)} and for the object format of the plan
// (sha1 | sha256). Every backend is compared, call by call, with ONE abstract
// model (maps) — never pairwise — so that a divergence is attributed to a
// backend. After every operation all reference names and all object ids of the
// universe are read back from every backend. Object ids come from an
// independent stdlib hasher over "<type> <len>\0data".
//
// When a filesystem backend diverges, the history is re-run on a filesystem
// backend with default options and with each option alone; the signature names
// the option that matters ("fs:any" when the default configuration diverges too).
//
// Signatures: "C17|<op>|<what>|<backend>" with what = value | error-kind |
// listing for the operation's own answer and readback-<what> for the read-back
// after it; backend = memory | fs:<option> | all (every backend gives the same
// answer and the model another one).
package c17

import (
	"bytes"
	"crypto/sha1"
	"crypto/sha256"
	"encoding/hex"
	"errors"
	"fmt"
	"io"
	"runtime/debug"
	"sort"
	"strings"
	"testing"
	"time"

	"github.com/go-git/go-git/v6/config"
	"github.com/go-git/go-git/v6/plumbing"
	"github.com/go-git/go-git/v6/plumbing/cache"
	"github.com/go-git/go-git/v6/plumbing/filemode"
	formatcfg "github.com/go-git/go-git/v6/plumbing/format/config"
	"github.com/go-git/go-git/v6/plumbing/format/index"
	"github.com/go-git/go-git/v6/plumbing/format/packfile"
	"github.com/go-git/go-git/v6/plumbing/format/reflog"
	"github.com/go-git/go-git/v6/plumbing/storer"
	"github.com/go-git/go-git/v6/storage"
	"github.com/go-git/go-git/v6/storage/filesystem"
	"github.com/go-git/go-git/v6/storage/filesystem/dotgit"
	"github.com/go-git/go-git/v6/storage/memory"
	"github.com/go-git/go-git/v6/verifsim/core"
	"github.com/go-git/go-git/v6/verifsim/hooks"
	"github.com/go-git/go-git/v6/verifsim/simfs"
	"github.com/go-git/go-git/v6/x/fdpool"
)

// ---------------------------------------------------------------- universe

const (
	nObjs    = 10 // objects that histories may store
	nObjPool = 13 // + ids that are never stored ("missing id" lookups)
	maxOps   = 30
	maxFS    = 4
	nSeeds   = 16
)

// refNames: four ordinary names, HEAD, a directory/file pair (refs/heads/d and
// refs/heads/d/e cannot coexist in a git repository) and a pseudo-ref.
var refNames = []string{"refs/heads/a", "refs/heads/b", "refs/tags/t", "refs/remotes/o/m", "HEAD", "refs/heads/d", "refs/heads/d/e", "ORIG_HEAD"}

const (
	dfParent = "refs/heads/d"
	dfChild  = "refs/heads/d/e"
)

var (
	objTypes = []plumbing.ObjectType{plumbing.BlobObject, plumbing.CommitObject, plumbing.TreeObject, plumbing.TagObject}
	reqTypes = []plumbing.ObjectType{plumbing.AnyObject, plumbing.BlobObject, plumbing.CommitObject, plumbing.TreeObject, plumbing.TagObject}
	objSizes = []int{5, 1, 0, 64, 65, 63, 130, 2, 300, 40, 7, 66, 0}
	modNames = []string{"m1", "m2", "dir/sub"}
	idxPaths = []string{"a.txt", "dir/b.txt", "dir/sub/c.bin", "z"}
)

func mod(a, n int) int {
	if n <= 0 {
		return 0
	}
	a %= n
	if a < 0 {
		a += n
	}
	return a
}

type objSpec struct {
	typ  plumbing.ObjectType
	data []byte
	id   plumbing.Hash
	sum  string // short digest of data, for messages
}

// objID is the independent object id: H("<type> <len>\x00" + data).
func objID(sha256fmt bool, t plumbing.ObjectType, data []byte) plumbing.Hash {
	h := sha1.New()
	if sha256fmt {
		h = sha256.New()
	}
	fmt.Fprintf(h, "%s %d\x00", t.String(), len(data))
	h.Write(data)
	id, _ := plumbing.FromBytes(h.Sum(nil))
	return id
}

func shortSum(b []byte) string {
	s := sha256.Sum256(b)
	return hex.EncodeToString(s[:5])
}

type uniKey struct {
	seed   int
	sha256 bool
}

var uniCache = map[uniKey][]objSpec{}

func universe(seed int, sha256fmt bool) []objSpec {
	k := uniKey{seed, sha256fmt}
	if u, ok := uniCache[k]; ok {
		return u
	}
	out := make([]objSpec, nObjPool)
	for i := range out {
		t := objTypes[mod(i, len(objTypes))]
		unit := fmt.Sprintf("u%d.o%d|", seed, i)
		var data []byte
		for len(data) < objSizes[i] {
			data = append(data, unit...)
		}
		data = data[:objSizes[i]]
		out[i] = objSpec{typ: t, data: data, id: objID(sha256fmt, t, data), sum: shortSum(data)}
	}
	uniCache[k] = out
	return out
}

func objFormat(sha256fmt bool) formatcfg.ObjectFormat {
	if sha256fmt {
		return formatcfg.SHA256
	}
	return formatcfg.SHA1
}

func newMemory(sha256fmt bool) *memory.Storage {
	if sha256fmt {
		return memory.NewStorage(memory.WithObjectFormat(formatcfg.SHA256))
	}
	return memory.NewStorage()
}

func newObj(st storer.EncodedObjectStorer, o objSpec) plumbing.EncodedObject {
	eo := st.NewEncodedObject()
	eo.SetType(o.typ)
	eo.SetSize(int64(len(o.data)))
	w, _ := eo.Writer()
	_, _ = w.Write(o.data)
	_ = w.Close()
	return eo
}

var packCache = map[string][]byte{}

// packBytes builds a pack with go-git's own encoder (setup, not subject).
func packBytes(seed int, sha256fmt bool, objs []int, uni []objSpec) ([]byte, error) {
	key := fmt.Sprint(seed, sha256fmt, objs)
	if b, ok := packCache[key]; ok {
		return b, nil
	}
	if len(packCache) > 4000 {
		packCache = map[string][]byte{}
	}
	ms := newMemory(sha256fmt)
	var hs []plumbing.Hash
	for _, k := range objs {
		h, err := ms.SetEncodedObject(newObj(ms, uni[k]))
		if err != nil {
			return nil, err
		}
		if h.String() != uni[k].id.String() {
			return nil, fmt.Errorf("independent id %s != go-git id %s", uni[k].id, h)
		}
		hs = append(hs, h)
	}
	var buf bytes.Buffer
	enc := packfile.NewEncoder(&buf, ms, false)
	if _, err := enc.Encode(hs, 10); err != nil {
		return nil, err
	}
	packCache[key] = buf.Bytes()
	return buf.Bytes(), nil
}

// ---------------------------------------------------------------- plan

// Backend is one filesystem option combination.
type Backend struct {
	Excl       bool `json:"excl"`         // Options.ExclusiveAccess
	MemIdx     bool `json:"memidx"`       // Options.UseInMemoryIdx
	LOT        int  `json:"lot"`          // Options.LargeObjectThreshold
	SmallLRU   bool `json:"small_lru"`    // cache.NewObjectLRU(96 bytes) instead of the default
	NoIdxCache bool `json:"no_idx_cache"` // Options.IndexCache = a cache that never holds anything
	Pool1      bool `json:"pool1"`        // Options.Pool = fdpool.New(1)
	// ExplicitFmt passes Options.ObjectFormat = SHA1 in a sha1 plan instead of
	// leaving it unset (a sha256 plan always has to name its format).
	ExplicitFmt bool `json:"explicit_fmt"`
}

func (b Backend) String() string {
	var s []string
	if b.Excl {
		s = append(s, "excl")
	}
	if b.MemIdx {
		s = append(s, "memidx")
	}
	if b.LOT != 0 {
		s = append(s, fmt.Sprintf("lot=%d", b.LOT))
	}
	if b.SmallLRU {
		s = append(s, "lru")
	}
	if b.NoIdxCache {
		s = append(s, "noic")
	}
	if b.Pool1 {
		s = append(s, "pool1")
	}
	if b.ExplicitFmt {
		s = append(s, "fmt")
	}
	return "{" + strings.Join(s, ",") + "}"
}

type Op struct {
	K string `json:"k"`
	A int    `json:"a"`
	B int    `json:"b"`
	C int    `json:"c"`
}

type Plan struct {
	SHA256  bool      `json:"sha256"`
	Seed    int       `json:"seed"`
	NoClock bool      `json:"no_clock"` // the disk clock stands still during the history
	FS      []Backend `json:"fs"`
	Ops     []Op      `json:"ops"`
	// Mute lists signature prefixes ("<op>|<what>", without "C17|") that this
	// run does not report, so that rarer divergences behind an already-triaged
	// one surface. A backend that shows a muted divergence no longer agrees with
	// the model and is dropped for the rest of the run. Every divergence, muted
	// or not, is counted as a "div:" probe.
	Mute []string `json:"mute,omitempty"`
}

var opWeights = []struct {
	k string
	w int
}{
	{"set-obj", 9}, {"raw-obj", 2}, {"pack", 5}, {"get-obj", 9}, {"has-obj", 3}, {"size-obj", 3}, {"iter-objs", 3}, {"prefix", 2},
	{"set-ref", 10}, {"cas-ref", 10}, {"rm-ref", 6}, {"get-ref", 5}, {"iter-refs", 3}, {"count-loose", 1}, {"pack-refs", 3},
	{"set-index", 3}, {"get-index", 2}, {"set-config", 3}, {"get-config", 2}, {"set-shallow", 3}, {"get-shallow", 2},
	{"reflog-append", 3}, {"reflog-get", 2}, {"reflog-delete", 2}, {"mod", 6}, {"reopen", 3},
	{"index-alias", 1}, {"config-alias", 1}, {"del-pack", 3},
}

// muteable lists the signature prefixes Gen may mute (the triaged ones).
var muteable = []string{
	"cas-ref-missing|error-kind",  // memory stores on a missing name
	"index-alias", "config-alias", // memory hands out its own Index/Config values
	"get-config-absent|value", "mod-get-config-absent|value", // filesystem: format version 1 without a config file; memory modules are always sha1
	"mod-set-obj|value",                                                                     // memory modules are always sha1
	"iter-refs-pseudo|listing",                                                              // filesystem does not list pseudo-refs
	"set-ref-df-", "cas-ref-df-", "cas-ref-missing-df-", "rm-ref-df-", "rm-ref-missing-df-", // directory/file pair on the loose-file layout
	"reflog-append-df-", "reflog-get-df-", "reflog-get-absent-df-", "reflog-delete-df-",
}

func genBackend(r *core.Rand) Backend {
	return Backend{
		Excl:        r.Bool(),
		MemIdx:      r.Chance(1, 3),
		LOT:         r.Pick2(0, 0, 1, 64),
		SmallLRU:    r.Chance(1, 3),
		NoIdxCache:  r.Chance(1, 3),
		Pool1:       r.Chance(1, 3),
		ExplicitFmt: r.Chance(1, 4),
	}
}

func genPlan(r *core.Rand, tier string) any {
	p := &Plan{SHA256: r.Chance(1, 3), Seed: r.Intn(nSeeds), NoClock: r.Chance(1, 4)}
	for i, n := 0, r.Range(1, 3); i < n; i++ {
		p.FS = append(p.FS, genBackend(r))
	}
	tot := 0
	for _, w := range opWeights {
		tot += w.w
	}
	var stored []int
	for i, n := 0, r.Range(4, maxOps); i < n; i++ {
		x := r.Intn(tot)
		k := ""
		for _, w := range opWeights {
			if x < w.w {
				k = w.k
				break
			}
			x -= w.w
		}
		op := Op{K: k, A: r.Intn(1024), B: r.Intn(64), C: r.Intn(64)}
		switch k {
		case "set-ref", "cas-ref", "rm-ref", "get-ref", "reflog-append", "reflog-get", "reflog-delete":
			// the directory/file pair and the pseudo-ref are rarer than ordinary names
			if r.Chance(4, 5) {
				op.A = r.Intn(5)
			} else {
				op.A = 5 + r.Intn(3)
			}
			if strings.HasPrefix(k, "reflog-") && r.Chance(1, 4) {
				op.A = 5 + r.Intn(2) // reflogs of the directory/file pair
			}
			// conditional updates, removals and lookups mostly go to names
			// that an earlier operation (probably) stored
			if (k == "cas-ref" || k == "rm-ref" || k == "get-ref") && len(stored) > 0 && r.Chance(7, 8) {
				op.A = stored[r.Intn(len(stored))]
			}
			if k == "set-ref" || (k == "cas-ref" && op.C%4 == 0) {
				stored = append(stored, op.A)
			}
		}
		p.Ops = append(p.Ops, op)
		if k == "pack" && r.Chance(1, 3) {
			// the same pack once more (byte-identical), and sometimes the
			// same objects loose, so that deleting the pack is harmless
			p.Ops = append(p.Ops, op)
			if r.Bool() {
				for b := 0; b < 10; b++ {
					if op.A&(1<<b) != 0 {
						p.Ops = append(p.Ops, Op{K: "set-obj", A: b})
					}
				}
				p.Ops = append(p.Ops, Op{K: "del-pack", A: r.Intn(8)})
			}
		}
	}
	if r.Chance(4, 5) {
		for _, m := range muteable {
			if r.Chance(3, 4) {
				p.Mute = append(p.Mute, m)
			}
		}
	}
	return p
}

// ---------------------------------------------------------------- model

type repoM struct {
	refs      map[string]string // name -> "h:<hex>" | "s:<target>"
	objs      map[int]bool
	index     string // digest; "" = never set
	indexSet  bool
	cfg       string
	cfgSet    bool
	shallow   []string
	reflog    map[string][]string
	everSet   map[string]bool // reference names that were ever stored
	everLog   map[string]bool // reference names that ever had a reflog
	anyPacked bool
	loose     map[int]bool // objects stored one by one (loose files on the filesystem backends)
	packs     []packM      // packs written so far, by pack name (identical packs collapse into one)
}

type packM struct {
	name string
	objs []int
}

func newRepoM() *repoM {
	return &repoM{loose: map[int]bool{}, refs: map[string]string{}, objs: map[int]bool{}, reflog: map[string][]string{}, everSet: map[string]bool{}, everLog: map[string]bool{}}
}

func refVal(r *plumbing.Reference) string {
	if r.Type() == plumbing.SymbolicReference {
		return "s:" + r.Target().String()
	}
	return "h:" + r.Hash().String()
}

// hashOfVal is what Reference.Hash() returns for a stored value (zero for a
// symbolic reference): both backends compare old and current this way.
func hashOfVal(val string) string {
	if strings.HasPrefix(val, "h:") {
		return val[2:]
	}
	return ""
}

func isPseudo(name string) bool { return name != "HEAD" && !strings.HasPrefix(name, "refs/") }

// dfQualifier separates the signatures of operations on the directory/file
// pair: the model is a plain map and holds both names at once; a git
// repository (and the loose-file layout) cannot.
func (r *run) dfQualifier(name string) string {
	other := dfOther(name)
	if other == "" {
		return ""
	}
	if _, conflict := r.m.refs[other]; conflict {
		r.probe("ref-directory-file-conflict")
		return "-df-conflict"
	}
	if r.m.everSet[other] {
		r.probe("ref-after-directory-file-removal")
		return "-df-stale"
	}
	return ""
}

func (r *run) dfLogQualifier(name string) string {
	other := dfOther(name)
	if other == "" {
		return ""
	}
	if len(r.m.reflog[other]) > 0 {
		return "-df-conflict"
	}
	if r.m.everLog[other] {
		return "-df-stale"
	}
	return ""
}

func dfOther(name string) string {
	switch name {
	case dfParent:
		return dfChild
	case dfChild:
		return dfParent
	}
	return ""
}

// ---------------------------------------------------------------- digests

const emptyIndexDigest = "v2[]"

func indexDigest(idx *index.Index) string {
	es := make([]string, 0, len(idx.Entries))
	for _, e := range idx.Entries {
		es = append(es, fmt.Sprintf("%s|%s|%o|%d|%d", e.Name, e.Hash, e.Mode, e.Size, e.Stage))
	}
	sort.Strings(es)
	return fmt.Sprintf("v%d[%s]", idx.Version, strings.Join(es, ","))
}

func buildIndex(a, b int, uni []objSpec) *index.Index {
	idx := &index.Index{Version: 2}
	for j, p := range idxPaths {
		if mod(a, 16)&(1<<j) == 0 {
			continue
		}
		mode := filemode.Regular
		if (b+j)%5 == 0 {
			mode = filemode.Executable
		}
		idx.Entries = append(idx.Entries, &index.Entry{Name: p, Hash: uni[mod(b+j, nObjPool)].id, Mode: mode, Size: uint32(mod(b*7+j, 500))})
	}
	return idx
}

func normVersion(v formatcfg.RepositoryFormatVersion) string {
	if v == "" {
		return "0"
	}
	return string(v)
}

func normFormat(f formatcfg.ObjectFormat) string {
	if f == "" {
		return "sha1"
	}
	return string(f)
}

func cfgDigest(c *config.Config) string {
	var rem []string
	for n, r := range c.Remotes {
		rem = append(rem, n+"="+strings.Join(r.URLs, "+"))
	}
	sort.Strings(rem)
	return fmt.Sprintf("user=%s email=%s bare=%v version=%s format=%s remotes=[%s]", c.User.Name, c.User.Email, c.Core.IsBare,
		normVersion(c.Core.RepositoryFormatVersion), normFormat(c.Extensions.ObjectFormat), strings.Join(rem, ","))
}

// buildConfig is what a well-behaved client writes: it keeps the repository's
// object format in the configuration.
func buildConfig(k int, sha256fmt bool) *config.Config {
	k = mod(k, 12)
	c := config.NewConfig()
	c.User.Name = fmt.Sprintf("user%d", k%4)
	c.Core.IsBare = k%3 == 0
	if k%2 == 1 {
		name, url := fmt.Sprintf("r%d", k%3), fmt.Sprintf("https://example.com/%d.git", k)
		c.Remotes[name] = &config.RemoteConfig{Name: name, URLs: []string{url}}
	}
	if sha256fmt {
		c.Core.RepositoryFormatVersion = formatcfg.Version1
		c.Extensions.ObjectFormat = formatcfg.SHA256
	}
	return c
}

func absentCfgDigest(sha256fmt bool) string {
	c := config.NewConfig()
	if sha256fmt {
		c.Core.RepositoryFormatVersion = formatcfg.Version1
		c.Extensions.ObjectFormat = formatcfg.SHA256
	}
	return cfgDigest(c)
}

func shallowOf(a, b int, uni []objSpec) []plumbing.Hash {
	var hs []plumbing.Hash
	for j := 0; j < 3; j++ {
		if mod(a, 8)&(1<<j) != 0 {
			hs = append(hs, uni[mod(b+j*3, nObjPool)].id)
		}
	}
	return hs
}

func hexes(hs []plumbing.Hash) []string {
	out := make([]string, 0, len(hs))
	for _, h := range hs {
		out = append(out, h.String())
	}
	return out
}

func logEntry(k int, uni []objSpec) *reflog.Entry {
	k = mod(k, 40)
	zone := time.UTC
	if k%3 == 1 {
		zone = time.FixedZone("", 2*3600)
	} else if k%3 == 2 {
		zone = time.FixedZone("", -(5*3600 + 30*60))
	}
	msg := fmt.Sprintf("update %d: moving on", k)
	if k%7 == 0 {
		msg = ""
	}
	return &reflog.Entry{OldHash: uni[mod(k, nObjPool)].id, NewHash: uni[mod(k+1, nObjPool)].id,
		Committer: reflog.Signature{Name: "C Seventeen", Email: "c17@example.com", When: time.Unix(1_700_000_000+int64(k)*60, 0).In(zone)},
		Message:   msg}
}

func logDigest(e *reflog.Entry) string {
	_, off := e.Committer.When.Zone()
	return fmt.Sprintf("%s>%s %s <%s> %d %+d %q", e.OldHash, e.NewHash, e.Committer.Name, e.Committer.Email, e.Committer.When.Unix(), off, e.Message)
}

// ---------------------------------------------------------------- backends

// noIndexCache is an IndexCache that never holds anything.
type noIndexCache struct{}

func (noIndexCache) Get(time.Time, int64) *index.Index  { return nil }
func (noIndexCache) Set(*index.Index, time.Time, int64) {}
func (noIndexCache) Clear()                             {}

type backend struct {
	name  string
	cfg   *Backend // nil = memory
	st    storage.Storer
	fs    *filesystem.Storage
	disk  *simfs.Disk
	dead  bool
	opens int
}

func (b *backend) isFS() bool { return b.cfg != nil }

func (b *backend) open(sha256fmt bool) error {
	c := b.cfg
	lru := cache.NewObjectLRUDefault()
	if c.SmallLRU {
		lru = cache.NewObjectLRU(96 * cache.Byte)
	}
	lot := c.LOT
	if lot < 0 {
		lot = -lot
	}
	if lot > 1<<20 {
		lot = 1 << 20
	}
	opts := filesystem.Options{ExclusiveAccess: c.Excl, UseInMemoryIdx: c.MemIdx, LargeObjectThreshold: int64(lot), ObjectFormat: objFormat(sha256fmt)}
	if !sha256fmt && !c.ExplicitFmt {
		opts.ObjectFormat = formatcfg.UnsetObjectFormat
	}
	if c.NoIdxCache {
		opts.IndexCache = noIndexCache{}
	}
	if c.Pool1 {
		opts.Pool = fdpool.New(1)
	}
	b.opens++
	b.fs = filesystem.NewStorageWithOptions(b.disk.FS("/g", fmt.Sprintf("%s.%d", b.name, b.opens)), lru, opts)
	b.st = b.fs
	return b.fs.Init()
}

func (b *backend) close() {
	if b.fs != nil {
		_ = b.fs.Close()
	}
}

// ---------------------------------------------------------------- results

type res struct {
	kind   string // ok | notfound-obj | notfound-ref | changed | skip | err:<text> | panic:<text>
	val    string
	list   []string
	isList bool
	dups   int
	note   string
}

type want struct {
	kinds  []string // accepted kinds; "anyerr" = anything but ok
	val    string
	list   []string
	isList bool
	noVal  bool               // the value is not compared
	check  func(g res) string // extra judgement of an ok result ("" = fine)
}

func errKind(err error) string {
	switch {
	case err == nil:
		return "ok"
	case errors.Is(err, plumbing.ErrObjectNotFound):
		return "notfound-obj"
	case errors.Is(err, plumbing.ErrReferenceNotFound):
		return "notfound-ref"
	case errors.Is(err, storage.ErrReferenceHasChanged):
		return "changed"
	}
	s := err.Error()
	if len(s) > 90 {
		s = s[:90]
	}
	return "err:" + s
}

func kindClass(k string) string {
	if i := strings.IndexByte(k, ':'); i >= 0 {
		return k[:i]
	}
	return k
}

func safely(b *backend, call func(b *backend) res) (g res) {
	defer func() {
		if pv := recover(); pv != nil {
			s := fmt.Sprint(pv)
			if len(s) > 90 {
				s = s[:90]
			}
			g = res{kind: "panic:" + s}
		}
	}()
	return call(b)
}

func sameStrings(a, b []string) bool {
	if len(a) != len(b) {
		return false
	}
	for i := range a {
		if a[i] != b[i] {
			return false
		}
	}
	return true
}

func setDiff(got, wantL []string) string {
	g, w := map[string]bool{}, map[string]bool{}
	for _, x := range got {
		g[x] = true
	}
	for _, x := range wantL {
		w[x] = true
	}
	var extra, missing []string
	for _, x := range got {
		if !w[x] {
			extra = append(extra, x)
		}
	}
	for _, x := range wantL {
		if !g[x] {
			missing = append(missing, x)
		}
	}
	return fmt.Sprintf("unexpected %v, missing %v", extra, missing)
}

// judge returns "" or what diverged (error-kind | value | listing) and a text.
func judge(w want, g res) (string, string) {
	okKind := false
	for _, k := range w.kinds {
		if k == g.kind || (k == "anyerr" && g.kind != "ok") {
			okKind = true
		}
	}
	if !okKind {
		return "error-kind", fmt.Sprintf("answered %q, the model answers %v", g.kind, w.kinds)
	}
	if g.kind != "ok" {
		return "", ""
	}
	if w.check != nil {
		if s := w.check(g); s != "" {
			return "value", s
		}
	}
	if w.noVal {
		return "", ""
	}
	if w.isList {
		if !sameStrings(g.list, w.list) {
			return "listing", setDiff(g.list, w.list)
		}
		return "", ""
	}
	if g.val != w.val {
		return "value", fmt.Sprintf("returned %q, the model has %q", g.val, w.val)
	}
	return "", ""
}

func sortedSet(l []string) ([]string, int) {
	sort.Strings(l)
	out := l[:0]
	dups := 0
	for i, x := range l {
		if i > 0 && x == l[i-1] {
			dups++
			continue
		}
		out = append(out, x)
	}
	return out, dups
}

// ---------------------------------------------------------------- the run

type div struct {
	b    *backend
	key  string // "<op>|<what>"
	text string
	got  string // class of the answer (ok, notfound-ref, err, ...)
}

type run struct {
	p     *Plan
	uni   []objSpec
	out   *core.Outcome // nil in attribution re-runs
	trace []string
	bs    []*backend
	m     *repoM
	mods  map[string]*repoM

	first   *div
	firstBE string // memory | fs | all
	seen    map[string]bool
	// target is set in attribution re-runs: only this divergence is looked
	// for; a backend showing another one first is kept (another option of the
	// configuration under test may have a divergence of its own earlier)
	target string

	missingLookup bool
	overwrite     bool
}

func (r *run) logf(format string, args ...any) {
	if r.out != nil && len(r.trace) < 400 {
		r.trace = append(r.trace, fmt.Sprintf(format, args...))
	}
}

func (r *run) probe(name string) {
	if r.out != nil {
		r.out.Probe(name)
	}
}

func (r *run) muted(key string) bool {
	for _, m := range r.p.Mute {
		if m != "" && strings.HasPrefix(key, m) {
			return true
		}
	}
	return false
}

func (r *run) live() []*backend {
	var l []*backend
	for _, b := range r.bs {
		if !b.dead {
			l = append(l, b)
		}
	}
	return l
}

// settle takes the divergences of one comparison round.
func (r *run) settle(ds []div) {
	if len(ds) == 0 {
		return
	}
	live := r.live()
	all := len(live) >= 2 && len(ds) == len(live) && !live[0].isFS()
	for _, d := range ds[1:] {
		if d.key != ds[0].key || d.got != ds[0].got {
			all = false
		}
	}
	for _, d := range ds {
		be := "fs"
		if !d.b.isFS() {
			be = "memory"
		}
		if all {
			be = "all"
		}
		pk := "div:C17|" + d.key + "|" + be
		if !r.seen[pk] {
			r.seen[pk] = true
			r.probe(pk)
		}
		r.logf("  DIVERGENCE %s on %s: %s", d.key, d.b.name, d.text)
		if r.target != "" && d.key != r.target {
			continue
		}
		if r.muted(d.key) {
			d.b.dead = true
			r.probe("backend-dropped-after-muted-divergence")
			continue
		}
		if r.first == nil {
			dd := d
			r.first, r.firstBE = &dd, be
		}
	}
}

// perform runs one call on every live backend and compares with the model.
func (r *run) perform(i int, opName, desc string, w want, call func(b *backend) res) {
	var ds []div
	line := fmt.Sprintf("%d %s %s -> model=%s", i, opName, desc, strings.Join(w.kinds, "/"))
	for _, b := range r.bs {
		if b.dead {
			line += " " + b.name + "=dropped"
			continue
		}
		g := safely(b, call)
		line += " " + b.name + "=" + kindClass(g.kind)
		if g.kind == "skip" {
			continue
		}
		if g.dups > 0 {
			r.probe("listing-with-duplicates")
		}
		if g.note != "" {
			r.probe(g.note)
		}
		if what, text := judge(w, g); what != "" {
			ds = append(ds, div{b, opName + "|" + what, fmt.Sprintf("%s %s: %s", opName, desc, text), g.kind + "=" + g.val + strings.Join(g.list, ",")})
		}
	}
	r.logf("%s", line)
	r.settle(ds)
}

func readObject(st storer.EncodedObjectStorer, t plumbing.ObjectType, id plumbing.Hash) res {
	o, err := st.EncodedObject(t, id)
	if err != nil {
		return res{kind: errKind(err)}
	}
	if o == nil {
		return res{kind: "err:nil object without error"}
	}
	rd, err := o.Reader()
	if err != nil {
		return res{kind: "err:Reader: " + errKind(err)}
	}
	data, err := io.ReadAll(rd)
	_ = rd.Close()
	if err != nil {
		return res{kind: "err:read: " + errKind(err)}
	}
	g := res{kind: "ok", val: fmt.Sprintf("%s/%d/%s/%s", o.Type(), o.Size(), shortSum(data), o.Hash())}
	if _, ok := o.(*dotgit.EncodedObject); ok {
		g.note = "large-object-threshold-hit"
	}
	return g
}

func (r *run) objVal(k int) string {
	o := r.uni[k]
	return fmt.Sprintf("%s/%d/%s/%s", o.typ, len(o.data), o.sum, o.id)
}

func readRef(st storer.ReferenceStorer, name string) res {
	ref, err := st.Reference(plumbing.ReferenceName(name))
	if err != nil {
		return res{kind: errKind(err)}
	}
	if ref == nil {
		return res{kind: "err:nil reference without error"}
	}
	if ref.Name().String() != name {
		return res{kind: "ok", val: "wrong-name:" + ref.Name().String()}
	}
	return res{kind: "ok", val: refVal(ref)}
}

func listRefs(st storer.ReferenceStorer, skipPseudo bool) res {
	it, err := st.IterReferences()
	if err != nil {
		return res{kind: errKind(err)}
	}
	var l []string
	err = it.ForEach(func(ref *plumbing.Reference) error {
		if skipPseudo && isPseudo(ref.Name().String()) {
			return nil
		}
		l = append(l, ref.Name().String()+"="+refVal(ref))
		return nil
	})
	it.Close()
	if err != nil {
		return res{kind: errKind(err)}
	}
	s, d := sortedSet(l)
	return res{kind: "ok", list: s, isList: true, dups: d}
}

func modelRefList(m *repoM, skipPseudo bool) []string {
	var l []string
	for n, v := range m.refs {
		if skipPseudo && isPseudo(n) {
			continue
		}
		l = append(l, n+"="+v)
	}
	sort.Strings(l)
	return l
}

func listObjs(st storer.EncodedObjectStorer, t plumbing.ObjectType) res {
	it, err := st.IterEncodedObjects(t)
	if err != nil {
		return res{kind: errKind(err)}
	}
	var l []string
	err = it.ForEach(func(o plumbing.EncodedObject) error {
		l = append(l, o.Hash().String()+":"+o.Type().String())
		return nil
	})
	it.Close()
	if err != nil {
		return res{kind: errKind(err)}
	}
	s, d := sortedSet(l)
	return res{kind: "ok", list: s, isList: true, dups: d}
}

func (r *run) modelObjList(m *repoM, t plumbing.ObjectType) []string {
	var l []string
	for k, ok := range m.objs {
		if ok && (t == plumbing.AnyObject || r.uni[k].typ == t) {
			l = append(l, r.uni[k].id.String()+":"+r.uni[k].typ.String())
		}
	}
	sort.Strings(l)
	return l
}

// readback: after every operation every reference name and every object id of
// the universe is read from every live backend.
func (r *run) readback(opName string) {
	full := false
	switch opName {
	case "open", "reopen", "reopened", "set-obj", "raw-obj", "pack", "mod-set-obj", "del-pack":
		full = true
	}
	var ds []div
	add := func(b *backend, what, format string, args ...any) {
		text := fmt.Sprintf(format, args...)
		ds = append(ds, div{b, opName + "|readback-" + what, "after " + opName + ": " + text, text})
	}
	wantList := modelRefList(r.m, true)
	wantObjs := r.modelObjList(r.m, plumbing.AnyObject)
	for _, b := range r.live() {
		n := len(ds)
		for _, name := range refNames {
			name := name
			g := safely(b, func(b *backend) res { return readRef(b.st, name) })
			w := want{kinds: []string{"notfound-ref"}}
			if v, ok := r.m.refs[name]; ok {
				w = want{kinds: []string{"ok"}, val: v}
			}
			if what, text := judge(w, g); what != "" {
				add(b, what, "Reference(%s) %s", name, text)
				break
			}
		}
		if len(ds) > n {
			continue
		}
		// pseudo-refs other than HEAD are left out of this listing comparison:
		// the "iter-refs" operation judges them under its own signature
		g := safely(b, func(b *backend) res { return listRefs(b.st, true) })
		if what, text := judge(want{kinds: []string{"ok"}, list: wantList, isList: true}, g); what != "" {
			add(b, what, "IterReferences() %s", text)
			continue
		}
		// present objects are read in full; ids the repository does not hold are
		// probed with HasEncodedObject. The full variant (every id both ways plus
		// the listing of all objects) runs when the storage was opened, after
		// operations that write objects and at the end of the history.
		for k := 0; k < nObjPool; k++ {
			k := k
			if r.m.objs[k] || full {
				g := safely(b, func(b *backend) res { return readObject(b.st, plumbing.AnyObject, r.uni[k].id) })
				w := want{kinds: []string{"notfound-obj"}}
				if r.m.objs[k] {
					w = want{kinds: []string{"ok"}, val: r.objVal(k)}
				}
				if what, text := judge(w, g); what != "" {
					add(b, what, "EncodedObject(any, object #%d %s) %s", k, r.uni[k].typ, text)
					break
				}
			}
			if !r.m.objs[k] || full {
				h := safely(b, func(b *backend) res { return res{kind: errKind(b.st.HasEncodedObject(r.uni[k].id))} })
				hw := want{kinds: []string{"notfound-obj"}}
				if r.m.objs[k] {
					hw = want{kinds: []string{"ok"}}
				}
				if what, text := judge(hw, h); what != "" {
					add(b, what, "HasEncodedObject(object #%d) %s", k, text)
					break
				}
			}
		}
		if len(ds) > n || !full {
			continue
		}
		g = safely(b, func(b *backend) res { return listObjs(b.st, plumbing.AnyObject) })
		if what, text := judge(want{kinds: []string{"ok"}, list: wantObjs, isList: true}, g); what != "" {
			add(b, what, "IterEncodedObjects(any) %s", text)
		}
	}
	r.settle(ds)
}

func reflogOf(st storage.Storer) (storer.ReflogStorer, bool) {
	rl, ok := st.(storer.ReflogStorer)
	return rl, ok
}

func readReflog(st storage.Storer, name string) res {
	rl, ok := reflogOf(st)
	if !ok {
		return res{kind: "skip"}
	}
	es, err := rl.Reflog(plumbing.ReferenceName(name))
	if err != nil {
		return res{kind: errKind(err)}
	}
	var l []string
	for _, e := range es {
		l = append(l, logDigest(e))
	}
	return res{kind: "ok", val: strings.Join(l, " ; ")}
}

func readIndex(st storage.Storer) res {
	idx, err := st.Index()
	if err != nil {
		return res{kind: errKind(err)}
	}
	if idx == nil {
		return res{kind: "err:nil index without error"}
	}
	return res{kind: "ok", val: indexDigest(idx)}
}

func readConfig(st storage.Storer) res {
	c, err := st.Config()
	if err != nil {
		return res{kind: errKind(err)}
	}
	if c == nil {
		return res{kind: "err:nil config without error"}
	}
	return res{kind: "ok", val: cfgDigest(c)}
}

func readShallow(st storage.Storer) res {
	hs, err := st.Shallow()
	if err != nil {
		return res{kind: errKind(err)}
	}
	return res{kind: "ok", val: strings.Join(hexes(hs), ",")}
}

func (r *run) wantIndex() want {
	if !r.m.indexSet {
		return want{kinds: []string{"ok"}, val: emptyIndexDigest}
	}
	return want{kinds: []string{"ok"}, val: r.m.index}
}

func (r *run) wantConfig() want {
	if !r.m.cfgSet {
		return want{kinds: []string{"ok"}, val: absentCfgDigest(r.p.SHA256)}
	}
	return want{kinds: []string{"ok"}, val: r.m.cfg}
}

func ok() []string { return []string{"ok"} }

// step executes one history operation.
func (r *run) step(i int, op Op) string {
	m := r.m
	uni := r.uni
	name := refNames[mod(op.A, len(refNames))]
	rn := plumbing.ReferenceName(name)
	switch op.K {
	case "set-obj", "raw-obj":
		k := mod(op.A, nObjs)
		o := uni[k]
		if op.K == "set-obj" {
			r.perform(i, "set-obj", fmt.Sprintf("#%d %s %dB", k, o.typ, len(o.data)), want{kinds: ok(), val: o.id.String()}, func(b *backend) res {
				h, err := b.st.SetEncodedObject(newObj(b.st, o))
				if err != nil {
					return res{kind: errKind(err)}
				}
				return res{kind: "ok", val: h.String()}
			})
		} else {
			r.perform(i, "raw-obj", fmt.Sprintf("#%d %s %dB", k, o.typ, len(o.data)), want{kinds: ok()}, func(b *backend) res {
				w, err := b.st.RawObjectWriter(o.typ, int64(len(o.data)))
				if err != nil {
					return res{kind: errKind(err)}
				}
				_, werr := w.Write(o.data)
				cerr := w.Close()
				if werr != nil {
					return res{kind: errKind(werr)}
				}
				return res{kind: errKind(cerr)}
			})
		}
		if m.objs[k] {
			r.probe("object-stored-again")
		}
		m.objs[k] = true
		m.loose[k] = true
		return op.K
	case "del-pack":
		// Delete a pack that is redundant (each of its objects is also stored
		// loose or in another pack): nothing changes in the abstract
		// repository, so every lookup must answer as before.
		var cand []int
		for pi, pk := range m.packs {
			redundant := true
			for _, k := range pk.objs {
				elsewhere := m.loose[k]
				for pj, other := range m.packs {
					if pj != pi {
						for _, ok2 := range other.objs {
							if ok2 == k {
								elsewhere = true
							}
						}
					}
				}
				if !elsewhere {
					redundant = false
				}
			}
			if redundant {
				cand = append(cand, pi)
			}
		}
		if len(cand) == 0 {
			return ""
		}
		pi := cand[mod(op.A, len(cand))]
		pk := m.packs[pi]
		r.probe("redundant-pack-deleted")
		r.perform(i, "del-pack", fmt.Sprintf("%s %v", pk.name[:8], pk.objs), want{kinds: ok()}, func(b *backend) res {
			pos, isPacked := b.st.(storer.PackedObjectStorer)
			if !isPacked {
				return res{kind: "ok"}
			}
			have, err := pos.ObjectPacks()
			if err != nil {
				return res{kind: errKind(err)}
			}
			for _, h := range have {
				if h.String() == pk.name {
					return res{kind: errKind(pos.DeleteOldObjectPackAndIndex(h, time.Time{}))}
				}
			}
			return res{kind: "ok"}
		})
		m.packs = append(m.packs[:pi:pi], m.packs[pi+1:]...)
		return "del-pack"
	case "pack":
		var objs []int
		for k := 0; k < nObjs; k++ {
			if mod(op.A, 1024)&(1<<k) != 0 {
				objs = append(objs, k)
			}
		}
		if len(objs) == 0 {
			objs = []int{mod(op.B, nObjs)}
		}
		data, err := packBytes(mod(r.p.Seed, nSeeds), r.p.SHA256, objs, uni)
		if err != nil {
			r.logf("%d pack %v: cannot build the pack: %v", i, objs, err)
			r.probe("pack-build-failed")
			return ""
		}
		r.perform(i, "pack", fmt.Sprintf("%v %dB", objs, len(data)), want{kinds: ok()}, func(b *backend) res {
			pwr, isPW := b.st.(storer.PackfileWriter)
			if !isPW {
				// the storage cannot take a pack: feed the same objects one by one
				for _, k := range objs {
					if _, err := b.st.SetEncodedObject(newObj(b.st, uni[k])); err != nil {
						return res{kind: errKind(err)}
					}
				}
				return res{kind: "ok"}
			}
			pw, err := pwr.PackfileWriter()
			if err != nil {
				return res{kind: errKind(err)}
			}
			half := len(data) / 2
			_, werr := pw.Write(data[:half])
			if werr == nil {
				_, werr = pw.Write(data[half:])
			}
			cerr := pw.Close()
			if werr != nil {
				return res{kind: errKind(werr)}
			}
			return res{kind: errKind(cerr), note: "pack-written"}
		})
		for _, k := range objs {
			if m.objs[k] {
				r.probe("object-both-loose-and-packed-or-in-two-packs")
			}
			m.objs[k] = true
		}
		{
			// the pack's name is its trailing checksum
			hs := 20
			if r.p.SHA256 {
				hs = 32
			}
			if len(data) > hs {
				name := fmt.Sprintf("%x", data[len(data)-hs:])
				known := false
				for _, pk := range m.packs {
					if pk.name == name {
						known = true
						r.probe("identical-pack-written-again")
					}
				}
				if !known {
					m.packs = append(m.packs, packM{name: name, objs: objs})
				}
			}
		}
		return "pack"
	case "get-obj":
		k := mod(op.A, nObjPool)
		t := reqTypes[mod(op.B, len(reqTypes))]
		opName := "get-obj"
		w := want{kinds: ok(), val: r.objVal(k)}
		switch {
		case !m.objs[k]:
			opName, w = "get-obj-missing", want{kinds: []string{"notfound-obj"}}
			r.probe("missing-obj-lookup")
			r.missingLookup = true
		case t != plumbing.AnyObject && t != uni[k].typ:
			opName, w = "get-obj-wrong-type", want{kinds: []string{"notfound-obj"}}
			r.probe("wrong-type-lookup")
			r.missingLookup = true
		}
		r.perform(i, opName, fmt.Sprintf("%s #%d", t, k), w, func(b *backend) res { return readObject(b.st, t, uni[k].id) })
		return opName
	case "has-obj", "size-obj":
		k := mod(op.A, nObjPool)
		opName := op.K
		kinds := ok()
		if !m.objs[k] {
			opName += "-missing"
			kinds = []string{"notfound-obj"}
			r.probe("missing-obj-lookup")
			r.missingLookup = true
		}
		if op.K == "has-obj" {
			r.perform(i, opName, fmt.Sprintf("#%d", k), want{kinds: kinds}, func(b *backend) res { return res{kind: errKind(b.st.HasEncodedObject(uni[k].id))} })
		} else {
			r.perform(i, opName, fmt.Sprintf("#%d", k), want{kinds: kinds, val: fmt.Sprint(len(uni[k].data))}, func(b *backend) res {
				sz, err := b.st.EncodedObjectSize(uni[k].id)
				if err != nil {
					return res{kind: errKind(err)}
				}
				return res{kind: "ok", val: fmt.Sprint(sz)}
			})
		}
		return opName
	case "iter-objs":
		t := reqTypes[mod(op.B, len(reqTypes))]
		r.perform(i, "iter-objs", t.String(), want{kinds: ok(), list: r.modelObjList(m, t), isList: true}, func(b *backend) res { return listObjs(b.st, t) })
		return "iter-objs"
	case "prefix":
		k := mod(op.A, nObjPool)
		n := 1 + mod(op.B, 2)
		prefix := uni[k].id.Bytes()[:n]
		var wl []string
		for j := 0; j < nObjPool; j++ {
			if m.objs[j] && bytes.HasPrefix(uni[j].id.Bytes(), prefix) {
				wl = append(wl, uni[j].id.String())
			}
		}
		sort.Strings(wl)
		r.perform(i, "prefix", fmt.Sprintf("#%d/%d", k, n), want{kinds: ok(), list: wl, isList: true}, func(b *backend) res {
			if b.fs == nil {
				return res{kind: "skip"}
			}
			hs, err := b.fs.HashesWithPrefix(prefix)
			if err != nil {
				return res{kind: errKind(err)}
			}
			s, d := sortedSet(hexes(hs))
			return res{kind: "ok", list: s, isList: true, dups: d}
		})
		return "prefix"
	case "set-ref", "cas-ref":
		var ref *plumbing.Reference
		sym := false
		if op.K == "set-ref" {
			sym = mod(op.C, 5) == 0
		} else {
			sym = mod(op.C/4, 6) == 0
		}
		if sym {
			ref = plumbing.NewSymbolicReference(rn, plumbing.ReferenceName(refNames[mod(op.B, 4)]))
		} else {
			ref = plumbing.NewHashReference(rn, uni[mod(op.B, nObjPool)].id)
		}
		cur, has := m.refs[name]
		opName := op.K
		w := want{kinds: ok()}
		var old *plumbing.Reference
		modeName := ""
		if op.K == "cas-ref" {
			otherHash := func() plumbing.Hash {
				for k := 0; k < nObjPool; k++ {
					if uni[mod(op.B+1+k, nObjPool)].id.String() != hashOfVal(cur) {
						return uni[mod(op.B+1+k, nObjPool)].id
					}
				}
				return uni[0].id
			}
			switch mod(op.C, 4) {
			case 0:
				modeName = "old=nil"
			case 1:
				modeName = "old=current"
				switch {
				case !has:
					old = plumbing.NewHashReference(rn, uni[mod(op.B+1, nObjPool)].id)
				case strings.HasPrefix(cur, "s:"):
					old = plumbing.NewSymbolicReference(rn, plumbing.ReferenceName(cur[2:]))
				default:
					old = plumbing.NewHashReference(rn, plumbing.NewHash(cur[2:]))
				}
				if has {
					r.probe("cas-current")
				}
			case 2:
				modeName = "old=stale"
				old = plumbing.NewHashReference(rn, otherHash())
				if has {
					w = want{kinds: []string{"changed"}}
					r.probe("cas-stale")
					r.missingLookup = true
				}
			case 3:
				// an expected symbolic value that differs from a current symbolic
				// value: both backends compare Hash() only (zero == zero)
				modeName = "old=other-symbolic"
				tgt := refNames[mod(op.B+1, 4)]
				if has && cur == "s:"+tgt {
					tgt = refNames[mod(op.B+2, 4)]
				}
				old = plumbing.NewSymbolicReference(rn, plumbing.ReferenceName(tgt))
				if has && hashOfVal(cur) != "" {
					w = want{kinds: []string{"changed"}}
				} else if has {
					r.probe("cas-symbolic-compared-by-zero-hash")
				}
			}
			if old != nil && !has {
				// the documentation: "checks that the current stored value for
				// old.Name() matches the given reference value in old. If not, it
				// returns an error and doesn't update". No current value cannot match.
				opName = "cas-ref-missing"
				w = want{kinds: []string{"notfound-ref", "changed"}}
				r.probe("cas-on-missing")
				r.missingLookup = true
			}
		}
		wouldStore := len(w.kinds) == 1 && w.kinds[0] == "ok"
		opName += r.dfQualifier(name)
		oldS := ""
		if op.K == "cas-ref" {
			oldS = " " + modeName
		}
		r.perform(i, opName, fmt.Sprintf("%s=%s%s", name, refVal(ref), oldS), w, func(b *backend) res {
			if op.K == "set-ref" {
				return res{kind: errKind(b.st.SetReference(ref))}
			}
			return res{kind: errKind(b.st.CheckAndSetReference(ref, old))}
		})
		if wouldStore {
			if has {
				r.probe("ref-overwrite")
				r.overwrite = true
			}
			m.refs[name] = refVal(ref)
			m.everSet[name] = true
			if sym {
				r.probe("symbolic-ref-stored")
			}
		}
		return opName
	case "rm-ref":
		_, has := m.refs[name]
		opName := "rm-ref"
		if !has {
			opName = "rm-ref-missing"
			r.probe("remove-missing-ref")
		} else {
			r.probe("ref-removed")
			r.overwrite = true
		}
		opName += r.dfQualifier(name)
		r.perform(i, opName, name, want{kinds: ok()}, func(b *backend) res { return res{kind: errKind(b.st.RemoveReference(rn))} })
		delete(m.refs, name)
		return opName
	case "get-ref":
		v, has := m.refs[name]
		opName, w := "get-ref", want{kinds: ok(), val: v}
		if !has {
			opName, w = "get-ref-missing", want{kinds: []string{"notfound-ref"}}
			r.probe("missing-ref-lookup")
			r.missingLookup = true
		}
		r.perform(i, opName, name, w, func(b *backend) res { return readRef(b.st, name) })
		return opName
	case "iter-refs":
		opName := "iter-refs"
		for n := range m.refs {
			if isPseudo(n) {
				opName = "iter-refs-pseudo"
				r.probe("listing-with-pseudo-ref")
			}
		}
		if _, ok := m.refs["HEAD"]; ok {
			r.probe("listing-with-HEAD")
		}
		r.perform(i, opName, "", want{kinds: ok(), list: modelRefList(m, false), isList: true}, func(b *backend) res { return listRefs(b.st, false) })
		return opName
	case "count-loose":
		total := len(m.refs)
		r.perform(i, "count-loose", "", want{kinds: ok(), check: func(g res) string {
			n := 0
			fmt.Sscan(g.val, &n)
			if n < 0 || n > total {
				return fmt.Sprintf("CountLooseRefs() = %d with %d references in the repository", n, total)
			}
			return ""
		}, noVal: true}, func(b *backend) res {
			n, err := b.st.CountLooseRefs()
			if err != nil {
				return res{kind: errKind(err)}
			}
			return res{kind: "ok", val: fmt.Sprint(n)}
		})
		return "count-loose"
	case "pack-refs":
		r.perform(i, "pack-refs", fmt.Sprintf("refs=%d", len(m.refs)), want{kinds: ok()}, func(b *backend) res { return res{kind: errKind(b.st.PackRefs())} })
		if len(m.refs) > 0 {
			r.probe("packed-refs")
		}
		m.anyPacked = true
		return "pack-refs"
	case "set-index":
		d := indexDigest(buildIndex(op.A, op.B, uni))
		r.perform(i, "set-index", d, want{kinds: ok()}, func(b *backend) res { return res{kind: errKind(b.st.SetIndex(buildIndex(op.A, op.B, uni)))} })
		if m.indexSet {
			r.overwrite = true
		}
		m.index, m.indexSet = d, true
		return "set-index"
	case "get-index":
		opName := "get-index"
		if !m.indexSet {
			opName = "get-index-absent"
			r.probe("absent-index")
		}
		r.perform(i, opName, "", r.wantIndex(), func(b *backend) res { return readIndex(b.st) })
		return opName
	case "index-alias":
		// change the value Index() returned without writing it back: the
		// repository's index is what was last set
		aliasName := "index-alias"
		if !m.indexSet {
			// nothing was set: this is a plain read of the absent index
			aliasName = "get-index-absent"
			r.probe("absent-index")
		}
		r.perform(i, aliasName, "", r.wantIndex(), func(b *backend) res {
			if !m.indexSet {
				return readIndex(b.st)
			}
			idx, err := b.st.Index()
			if err != nil {
				return res{kind: errKind(err)}
			}
			idx.Entries = append(idx.Entries, &index.Entry{Name: "not-written-back", Hash: uni[0].id, Mode: filemode.Regular, Size: 1})
			for _, e := range idx.Entries {
				e.Size += 1000
			}
			return readIndex(b.st)
		})
		return aliasName
	case "set-config":
		c := buildConfig(op.A, r.p.SHA256)
		d := cfgDigest(c)
		r.perform(i, "set-config", fmt.Sprint(mod(op.A, 12)), want{kinds: ok()}, func(b *backend) res { return res{kind: errKind(b.st.SetConfig(buildConfig(op.A, r.p.SHA256)))} })
		if m.cfgSet {
			r.overwrite = true
		}
		m.cfg, m.cfgSet = d, true
		return "set-config"
	case "get-config":
		opName := "get-config"
		if !m.cfgSet {
			opName = "get-config-absent"
			r.probe("absent-config")
		}
		r.perform(i, opName, "", r.wantConfig(), func(b *backend) res { return readConfig(b.st) })
		return opName
	case "config-alias":
		aliasName := "config-alias"
		if !m.cfgSet {
			// nothing was set: this is a plain read of the absent configuration
			aliasName = "get-config-absent"
			r.probe("absent-config")
		}
		r.perform(i, aliasName, "", r.wantConfig(), func(b *backend) res {
			if !m.cfgSet {
				return readConfig(b.st)
			}
			c, err := b.st.Config()
			if err != nil {
				return res{kind: errKind(err)}
			}
			c.User.Name = "not-written-back"
			return readConfig(b.st)
		})
		return aliasName
	case "set-shallow":
		hs := shallowOf(op.A, op.B, uni)
		r.perform(i, "set-shallow", fmt.Sprintf("n=%d", len(hs)), want{kinds: ok()}, func(b *backend) res {
			return res{kind: errKind(b.st.SetShallow(append([]plumbing.Hash(nil), hs...)))}
		})
		if len(hs) == 0 {
			r.probe("shallow-empty")
		}
		if len(m.shallow) > 0 {
			r.overwrite = true
		}
		m.shallow = hexes(hs)
		return "set-shallow"
	case "get-shallow":
		opName := "get-shallow"
		if len(m.shallow) == 0 {
			opName = "get-shallow-empty"
		}
		r.perform(i, opName, "", want{kinds: ok(), val: strings.Join(m.shallow, ",")}, func(b *backend) res { return readShallow(b.st) })
		return opName
	case "reflog-append":
		e := logEntry(op.B, uni)
		appendName := "reflog-append" + r.dfLogQualifier(name)
		r.perform(i, appendName, name+" "+fmt.Sprint(mod(op.B, 40)), want{kinds: ok()}, func(b *backend) res {
			rl, ok := reflogOf(b.st)
			if !ok {
				return res{kind: "skip"}
			}
			ec := *e
			return res{kind: errKind(rl.AppendReflog(rn, &ec))}
		})
		m.reflog[name] = append(m.reflog[name], logDigest(e))
		m.everLog[name] = true
		r.probe("reflog-append")
		return appendName
	case "reflog-get":
		opName := "reflog-get"
		if len(m.reflog[name]) == 0 {
			opName = "reflog-get-absent"
		}
		opName += r.dfLogQualifier(name)
		r.perform(i, opName, name, want{kinds: ok(), val: strings.Join(m.reflog[name], " ; ")}, func(b *backend) res { return readReflog(b.st, name) })
		return opName
	case "reflog-delete":
		delName := "reflog-delete" + r.dfLogQualifier(name)
		r.perform(i, delName, name, want{kinds: ok()}, func(b *backend) res {
			rl, ok := reflogOf(b.st)
			if !ok {
				return res{kind: "skip"}
			}
			return res{kind: errKind(rl.DeleteReflog(rn))}
		})
		if len(m.reflog[name]) > 0 {
			r.overwrite = true
		}
		delete(m.reflog, name)
		return delName
	case "reopen":
		r.perform(i, "reopen", "", want{kinds: ok()}, func(b *backend) res {
			if !b.isFS() {
				return res{kind: "skip"}
			}
			b.close()
			return res{kind: errKind(b.open(r.p.SHA256)), note: "reopen"}
		})
		return "reopen"
	case "mod":
		return r.stepModule(i, op)
	}
	r.logf("%d %q: unknown operation, skipped", i, op.K)
	return ""
}

// stepModule: one call on the sub-storage Module(name) returns. The module is
// an (initially empty) repository of its own that persists across Module calls.
func (r *run) stepModule(i int, op Op) string {
	mname := modNames[mod(op.A, len(modNames))]
	mm := r.mods[mname]
	if mm == nil {
		mm = newRepoM()
		r.mods[mname] = mm
	} else {
		r.probe("module-visited-again")
	}
	uni := r.uni
	withSub := func(f func(sub storage.Storer) res) func(b *backend) res {
		return func(b *backend) res {
			sub, err := b.st.Module(mname)
			if err != nil {
				return res{kind: "err:Module: " + errKind(err)}
			}
			if sub == nil {
				return res{kind: "err:nil module storage without error"}
			}
			if c, ok := sub.(io.Closer); ok && b.isFS() {
				defer c.Close()
			}
			return f(sub)
		}
	}
	name := refNames[mod(op.C, 4)]
	k := mod(op.C, nObjs)
	sub := mod(op.B, 7)
	// two out of three lookups go to something the module (per the model)
	// holds: this is what shows that a module persists across Module calls
	if mod(op.C/8, 3) != 0 {
		if sub == 1 && len(mm.refs) > 0 {
			var names []string
			for n := range mm.refs {
				names = append(names, n)
			}
			sort.Strings(names)
			name = names[mod(op.C, len(names))]
		}
		if sub == 4 && len(mm.objs) > 0 {
			var ks []int
			for j := range mm.objs {
				ks = append(ks, j)
			}
			sort.Ints(ks)
			k = ks[mod(op.C, len(ks))]
		}
	}
	rn := plumbing.ReferenceName(name)
	switch sub {
	case 0:
		ref := plumbing.NewHashReference(rn, uni[mod(op.C/4, nObjPool)].id)
		r.perform(i, "mod-set-ref", mname+" "+name, want{kinds: ok()}, withSub(func(sub storage.Storer) res { return res{kind: errKind(sub.SetReference(ref))} }))
		mm.refs[name] = refVal(ref)
		return "mod-set-ref"
	case 1:
		v, has := mm.refs[name]
		opName, w := "mod-get-ref", want{kinds: ok(), val: v}
		if !has {
			opName, w = "mod-get-ref-missing", want{kinds: []string{"notfound-ref"}}
		} else {
			r.probe("module-persisted")
		}
		r.perform(i, opName, mname+" "+name, w, withSub(func(sub storage.Storer) res { return readRef(sub, name) }))
		return opName
	case 2:
		r.perform(i, "mod-iter-refs", mname, want{kinds: ok(), list: modelRefList(mm, false), isList: true}, withSub(func(sub storage.Storer) res { return listRefs(sub, false) }))
		return "mod-iter-refs"
	case 3:
		o := uni[k]
		r.perform(i, "mod-set-obj", fmt.Sprintf("%s #%d", mname, k), want{kinds: ok(), val: o.id.String()}, withSub(func(sub storage.Storer) res {
			h, err := sub.SetEncodedObject(newObj(sub, o))
			if err != nil {
				return res{kind: errKind(err)}
			}
			return res{kind: "ok", val: h.String()}
		}))
		mm.objs[k] = true
		return "mod-set-obj"
	case 4:
		opName, w := "mod-get-obj", want{kinds: ok(), val: r.objVal(k)}
		if !mm.objs[k] {
			opName, w = "mod-get-obj-missing", want{kinds: []string{"notfound-obj"}}
		} else {
			r.probe("module-persisted")
		}
		r.perform(i, opName, fmt.Sprintf("%s #%d", mname, k), w, withSub(func(sub storage.Storer) res { return readObject(sub, plumbing.AnyObject, uni[k].id) }))
		return opName
	case 5:
		r.perform(i, "mod-iter-objs", mname, want{kinds: ok(), list: r.modelObjList(mm, plumbing.AnyObject), isList: true}, withSub(func(sub storage.Storer) res { return listObjs(sub, plumbing.AnyObject) }))
		return "mod-iter-objs"
	default:
		opName := "mod-get-config"
		w := want{kinds: ok(), val: mm.cfg}
		if !mm.cfgSet {
			opName = "mod-get-config-absent"
			w.val = absentCfgDigest(r.p.SHA256)
		}
		if mod(op.C, 2) == 0 {
			c := buildConfig(op.C/2, r.p.SHA256)
			d := cfgDigest(c)
			r.perform(i, "mod-set-config", mname, want{kinds: ok()}, withSub(func(sub storage.Storer) res {
				return res{kind: errKind(sub.SetConfig(buildConfig(op.C/2, r.p.SHA256)))}
			}))
			mm.cfg, mm.cfgSet = d, true
			return "mod-set-config"
		}
		r.perform(i, opName, mname, w, withSub(func(sub storage.Storer) res { return readConfig(sub) }))
		return opName
	}
}

// final compares everything that the per-operation read-back leaves out, and
// on disk a brand-new Storage over the same image.
func (r *run) final() {
	m := r.m
	var logNames []string
	for _, n := range refNames {
		if o := dfOther(n); o != "" && m.everLog[o] {
			continue // judged by the reflog operations under their own signature
		}
		logNames = append(logNames, n)
	}
	// the comparisons carry the names of the corresponding history operations:
	// one defect, one signature
	check := func(prefix string, st func(b *backend) storage.Storer) {
		absentIf := func(name string, absent bool, suffix string) string {
			if absent {
				return prefix + name + suffix
			}
			return prefix + name
		}
		r.perform(-1, absentIf("get-index", !m.indexSet, "-absent"), "(end of history)", r.wantIndex(), func(b *backend) res {
			s := st(b)
			if s == nil {
				return res{kind: "skip"}
			}
			return readIndex(s)
		})
		r.perform(-1, absentIf("get-config", !m.cfgSet, "-absent"), "(end of history)", r.wantConfig(), func(b *backend) res {
			s := st(b)
			if s == nil {
				return res{kind: "skip"}
			}
			return readConfig(s)
		})
		r.perform(-1, absentIf("get-shallow", len(m.shallow) == 0, "-empty"), "(end of history)", want{kinds: ok(), val: strings.Join(m.shallow, ",")}, func(b *backend) res {
			s := st(b)
			if s == nil {
				return res{kind: "skip"}
			}
			return readShallow(s)
		})
		var wl []string
		for _, n := range logNames {
			wl = append(wl, n+": "+strings.Join(m.reflog[n], " ; "))
		}
		r.perform(-1, prefix+"reflog-get", "(end of history, all names)", want{kinds: ok(), val: strings.Join(wl, "\n")}, func(b *backend) res {
			s := st(b)
			if s == nil {
				return res{kind: "skip"}
			}
			var gl []string
			for _, n := range logNames {
				g := readReflog(s, n)
				if g.kind != "ok" {
					return g
				}
				gl = append(gl, n+": "+g.val)
			}
			return res{kind: "ok", val: strings.Join(gl, "\n")}
		})
	}
	check("", func(b *backend) storage.Storer { return b.st })
	if r.first != nil {
		return
	}
	// a fresh Storage over the same disk image
	for _, b := range r.live() {
		if b.isFS() {
			b.close()
			if err := b.open(r.p.SHA256); err != nil {
				r.settle([]div{{b, "reopened|error-kind", "opening a new Storage over the disk: " + err.Error(), "err"}})
			}
		}
	}
	if r.first != nil {
		return
	}
	check("reopened-", func(b *backend) storage.Storer {
		if !b.isFS() {
			return nil
		}
		return b.st
	})
	if r.first == nil {
		r.readback("reopened")
	}
}

func (r *run) stateDigest() string {
	m := r.m
	l := []string{fmt.Sprint("sha256=", r.p.SHA256)}
	l = append(l, modelRefList(m, false)...)
	l = append(l, r.modelObjList(m, plumbing.AnyObject)...)
	l = append(l, "index "+m.index, "config "+m.cfg, "shallow "+strings.Join(m.shallow, ","))
	for _, n := range refNames {
		l = append(l, "log "+n+" "+strings.Join(m.reflog[n], ";"))
	}
	for _, n := range modNames {
		if mm := r.mods[n]; mm != nil {
			l = append(l, "module "+n)
			l = append(l, modelRefList(mm, false)...)
			l = append(l, r.modelObjList(mm, plumbing.AnyObject)...)
			l = append(l, mm.cfg)
		}
	}
	return core.HashStrings(l)
}

// runHistory executes the plan's history on memory (optional) + the given
// filesystem configurations.
func runHistory(p *Plan, withMemory bool, fsCfgs []Backend, out *core.Outcome, target string) *run {
	r := &run{target: target, p: p, uni: universe(mod(p.Seed, nSeeds), p.SHA256), out: out, m: newRepoM(), mods: map[string]*repoM{}, seen: map[string]bool{}}
	if withMemory {
		r.bs = append(r.bs, &backend{name: "memory", st: newMemory(p.SHA256)})
	}
	for j := range fsCfgs {
		c := fsCfgs[j]
		b := &backend{name: fmt.Sprintf("fs%d", j), cfg: &c, disk: simfs.NewDisk()}
		if err := b.open(p.SHA256); err != nil {
			b.dead = true
			r.logf("backend %s%s: Init failed: %v", b.name, c, err)
			r.probe("fs-init-failed")
		}
		r.bs = append(r.bs, b)
		r.logf("backend %s = filesystem%s", b.name, c)
	}
	defer func() {
		for _, b := range r.bs {
			b.close()
		}
	}()
	ops := p.Ops
	if len(ops) > maxOps {
		ops = ops[:maxOps]
	}
	r.readback("open")
	for i, op := range ops {
		if r.first != nil || len(r.live()) == 0 {
			break
		}
		if !p.NoClock {
			for _, b := range r.bs {
				if b.disk != nil {
					b.disk.Advance(time.Second)
				}
			}
		}
		opName := r.step(i, op)
		if out != nil {
			out.Steps++
		}
		if opName != "" && r.first == nil {
			r.readback(opName)
		}
	}
	if r.first == nil && len(r.live()) > 0 {
		r.final()
	}
	return r
}

var fsOptionNames = []string{"exclusive-access", "in-memory-idx", "large-object-threshold", "small-object-cache", "no-index-cache", "pool-1", "explicit-sha1-format"}

func singleOption(name string, from Backend) []Backend {
	switch name {
	case "exclusive-access":
		return []Backend{{Excl: true}}
	case "in-memory-idx":
		return []Backend{{MemIdx: true}}
	case "large-object-threshold":
		if from.LOT != 0 {
			return []Backend{{LOT: from.LOT}}
		}
		return []Backend{{LOT: 1}, {LOT: 64}}
	case "small-object-cache":
		return []Backend{{SmallLRU: true}}
	case "no-index-cache":
		return []Backend{{NoIdxCache: true}}
	case "pool-1":
		return []Backend{{Pool1: true}}
	case "explicit-sha1-format":
		return []Backend{{ExplicitFmt: true}}
	}
	return nil
}

func without(name string, c Backend) (Backend, bool) {
	o := c
	switch name {
	case "exclusive-access":
		o.Excl = false
	case "in-memory-idx":
		o.MemIdx = false
	case "large-object-threshold":
		o.LOT = 0
	case "small-object-cache":
		o.SmallLRU = false
	case "no-index-cache":
		o.NoIdxCache = false
	case "pool-1":
		o.Pool1 = false
	case "explicit-sha1-format":
		o.ExplicitFmt = false
	}
	return o, o != c
}

// attribute names the filesystem option that matters for a divergence.
func attribute(p *Plan, cfg Backend, key string) string {
	reproduces := func(c Backend) bool {
		rr := runHistory(p, false, []Backend{c}, nil, key)
		return rr.first != nil && rr.first.key == key
	}
	if reproduces(Backend{}) {
		// the default configuration leaves Options.ObjectFormat unset in a sha1
		// plan: say so when naming the format makes the divergence go away
		if !p.SHA256 && !reproduces(Backend{ExplicitFmt: true}) {
			return "unset-object-format"
		}
		return "any"
	}
	for _, n := range fsOptionNames {
		for _, c := range singleOption(n, cfg) {
			if reproduces(c) {
				return n
			}
		}
	}
	// no single option: reduce the failing combination greedily
	cur := cfg
	if !reproduces(cur) {
		return "unstable"
	}
	for _, n := range fsOptionNames {
		if c, changed := without(n, cur); changed && reproduces(c) {
			cur = c
		}
	}
	var names []string
	for _, n := range fsOptionNames {
		if _, set := without(n, cur); set {
			names = append(names, n)
		}
	}
	return strings.Join(names, "+")
}

func execPlan(t *testing.T, pa any) (out core.Outcome) {
	hooks.Deterministic(true)
	p := pa.(*Plan)
	fsCfgs := p.FS
	if len(fsCfgs) > maxFS {
		fsCfgs = fsCfgs[:maxFS]
	}
	r := runHistory(p, true, fsCfgs, &out, "")
	out.Trace = r.trace
	out.LogHash = core.HashStrings(r.trace)
	out.StateHash = r.stateDigest()
	out.NonTrivial = r.missingLookup && r.overwrite
	if p.SHA256 {
		out.Probe("sha256")
	} else {
		out.Probe("sha1")
	}
	for _, c := range fsCfgs {
		if c.Excl {
			out.Probe("opt-exclusive-access")
		}
		if c.MemIdx {
			out.Probe("opt-in-memory-idx")
		}
		if c.LOT != 0 {
			out.Probe("opt-large-object-threshold")
		}
		if c.SmallLRU {
			out.Probe("opt-small-object-cache")
		}
		if c.NoIdxCache {
			out.Probe("opt-no-index-cache")
		}
		if c.Pool1 {
			out.Probe("opt-pool-1")
		}
		if c.ExplicitFmt && !p.SHA256 {
			out.Probe("opt-explicit-sha1-format")
		}
	}
	if d := r.first; d != nil {
		be := r.firstBE
		if be == "fs" {
			be = "fs:" + attribute(p, *d.b.cfg, d.key)
		}
		cfgS := ""
		if d.b.cfg != nil {
			cfgS = d.b.cfg.String()
		}
		fmtS := "sha1"
		if p.SHA256 {
			fmtS = "sha256"
		}
		out.Fail("C17|"+d.key+"|"+be, "[%s, backend %s%s] %s", fmtS, d.b.name, cfgS, d.text)
	}
	return out
}

func TestCheck(t *testing.T) {
	debug.SetGCPercent(400) // throughput only: the histories allocate many short-lived buffers
	core.Main(t, core.Check{
		ID:    "C17",
		Level: "exploration",
		Rule: "plan = object format (sha1 | sha256) x seeded universe (13 object ids of which 10 may be stored: blob/commit/tree/tag of 0..300 bytes; 8 reference names incl. HEAD, a directory/file pair and a pseudo-ref; 4 index paths; 3 module names) " +
			"x 1-3 filesystem option combinations {ExclusiveAccess, UseInMemoryIdx, LargeObjectThreshold 0/1/64, 96-byte object LRU, no-op IndexCache, fdpool.New(1), ObjectFormat unset or named in sha1 plans} x disk clock running or standing still " +
			"x a history of 4-30 operations out of 28 kinds (SetEncodedObject, RawObjectWriter, PackfileWriter with a pack from go-git's encoder, EncodedObject incl. any/wrong type/missing id, Has, Size, IterEncodedObjects by type, HashesWithPrefix, " +
			"SetReference hash/symbolic, CheckAndSetReference old nil/current/stale/other-symbolic also on a missing name, RemoveReference, Reference, IterReferences, CountLooseRefs, PackRefs, Set/Index, Set/Config, Set/Shallow, " +
			"Append/Reflog/DeleteReflog, seven calls on Module(name) sub-storages, re-opening the filesystem storage, changing the values Index()/Config() returned without writing them back); " +
			"the same history runs on memory.NewStorage and on every filesystem configuration, each compared call by call with one map model, with a read-back of all reference names and object ids after every operation and a full comparison (also through a new Storage over the disk) at the end; " +
			"non-trivial = the history has a lookup of missing data (missing id, wrong type, missing name, refused compare-and-set) and an overwrite or removal; distinct = distinct plan",
		Assumptions: []string{
			"no faults, one task: agreement of the backends is the subject",
			"a plan may mute already-triaged signature prefixes; a backend that shows a muted divergence is dropped for the rest of that run (it no longer agrees with the model), every divergence is still counted as a div: probe",
			"a filesystem divergence is attributed by re-running the history on a filesystem backend with default options and with each option alone: fs:any = the default configuration diverges too, fs:unset-object-format = only while Options.ObjectFormat is left unset, fs:<option> = that option alone suffices",
			"object ids come from an independent stdlib sha1/sha256 over '<type> <len>\\0data'; pack bytes are produced by go-git's own encoder (setup, not subject); memory.Storage has no PackfileWriter, it is fed the same objects with SetEncodedObject",
			"objects are created with the storage's NewEncodedObject as the interface documents; configurations written by the history carry the repository's object format (extensions.objectformat), as a well-behaved client's do",
			"CheckAndSetReference compares old and current by Hash() (zero for symbolic references) in the model, because both backends do (recorded under C15); with old != nil on a missing name the model refuses (the documentation: the current value must match old), either ErrReferenceNotFound or ErrReferenceHasChanged is accepted",
			"the model is a plain map and can hold refs/heads/d and refs/heads/d/e (and their reflogs) at once although a git repository cannot; operations on that pair carry -df-conflict (the other name exists) or -df-stale (the other name existed earlier) in their signature, so that what the loose-file layout does with them is reported on its own and can be muted",
			"CountLooseRefs is only required to answer without error a number between 0 and the number of references: 'loose' is a storage-layout notion (memory counts every reference, filesystem the files under refs/)",
			"nil and empty shallow lists are the same; listings are compared as sets (duplicates are a probe); reflog messages are single-line; Index is compared by version and entries (name, hash, mode, size, stage), Config by user, core.bare, repository format version ('' = '0'), object format ('' = 'sha1') and remotes",
			"the read-back after every operation leaves pseudo-refs other than HEAD out of the listing comparison (the iter-refs operation judges them under its own signature)",
			"not in the common contract, not exercised: transactions (memory only), alternates, DeltaObject/LooseObjectStorer/PackedObjectStorer extras, nil references, module names that escape modules/ (filesystem refuses them by design)",
		},
		Real:    []string{"storage/memory (all of it)", "storage/filesystem (Storage, ObjectStorage, ReferenceStorage, IndexStorage + IndexCache, ShallowStorage, ConfigStorage, ModuleStorage, ReflogStorage)", "storage/filesystem/dotgit (refs, packed-refs, object and pack writers, pack handles, fdpool)", "plumbing/format/{packfile,idxfile,objfile,index,config,reflog}"},
		Stub:    []string{"disk (simfs), fault-free, manual clock"},
		Runs:    map[string]int{"quick": 40000, "thorough": 1500000},
		NewPlan: func() any { return &Plan{} },
		Gen:     genPlan,
		Exec:    execPlan,
		RequiredProbes: []string{"pack-written", "wrong-type-lookup", "missing-obj-lookup", "missing-ref-lookup", "cas-on-missing", "cas-stale", "cas-current", "sha256", "large-object-threshold-hit",
			"ref-overwrite", "ref-removed", "remove-missing-ref", "packed-refs", "absent-index", "absent-config", "shallow-empty", "reflog-append", "module-persisted", "reopen",
			"opt-exclusive-access", "opt-in-memory-idx", "opt-large-object-threshold", "opt-small-object-cache", "opt-no-index-cache", "opt-pool-1"},
	})
}
