//go:build verif

package c19

import (
	"encoding/json"
	"fmt"
	"testing"

	"github.com/go-git/go-git/v6/verifsim/core"
)

func TestDbg(t *testing.T) {
	seen := map[string]int{}
	for i := 0; i < 3000; i++ {
		p := genPlan(core.NewRand(core.Mix(1, uint64(i))), "quick")
		o := execPlan(t, p)
		if o.Inconclusive != "" {
			seen[o.Inconclusive+" :: "+o.Message]++
			if seen[o.Inconclusive+" :: "+o.Message] == 1 && len(seen) < 4 {
				js, _ := json.Marshal(p.(*Plan).Base)
				fmt.Println(o.Inconclusive, o.Message, string(js))
			}
		}
	}
	for k, v := range seen {
		fmt.Println(v, k)
	}
}
