//go:build verif

// C19 — transactional storage shows base plus pending writes, then commits them.
//
// System under test: transactional.NewStorage(base, temporal) with a memory
// temporal storage and a memory or filesystem (simulated disk) base that was
// filled through its own API before the transaction starts. A generated
// history of object / reference / index / shallow / config / reflog writes,
// deletions, reads and listings goes through the transactional storage,
// followed by Commit.
//
// Oracle: two map-based models, the base model and the view model
// (view = base ⊕ pending writes ⊖ pending deletions). After every operation
// (1) the operation's own result is compared with the view model, (2) every
// key is read back and every listing is taken through the transactional
// storage and compared with the view model (reference listings as exact
// multisets), (3) the base is read directly and compared with the base model
// (unchanged before Commit). After Commit the base (same instance and, on
// disk, a brand-new Storage) must equal the view model.
//
// What is deliberately NOT judged (the statement does not demand it):
//   - the result of CheckAndSetReference on a name that never existed (base
//     storages disagree: memory sets it, filesystem and transactional answer
//     ErrReferenceNotFound). For a name that is absent from the view because
//     of a pending deletion the check only demands the same answer the
//     transactional storage itself gives for a never-existing name
//     (calibrated at run time): the view is the same, so the answer must be.
//   - CountLooseRefs (a packing heuristic, "loose" is not a view notion):
//     probe only. PackRefs on the transactional storage is a documented no-op.
//   - duplicates in IterEncodedObjects (objects are content-addressed; compared
//     as a set, duplicates are a probe).
//   - reads through the transactional storage after Commit.
//   - config: the package keeps config in the temporal storage behind a "set"
//     flag exactly like the index, so it is treated as transactional.
package c19

import (
	"bytes"
	"errors"
	"fmt"
	"io"
	"sort"
	"strings"
	"testing"
	"time"

	"github.com/go-git/go-git/v6/config"
	"github.com/go-git/go-git/v6/plumbing"
	"github.com/go-git/go-git/v6/plumbing/cache"
	"github.com/go-git/go-git/v6/plumbing/filemode"
	"github.com/go-git/go-git/v6/plumbing/format/index"
	"github.com/go-git/go-git/v6/plumbing/format/reflog"
	"github.com/go-git/go-git/v6/plumbing/storer"
	"github.com/go-git/go-git/v6/storage"
	"github.com/go-git/go-git/v6/storage/filesystem"
	"github.com/go-git/go-git/v6/storage/memory"
	"github.com/go-git/go-git/v6/storage/transactional"
	"github.com/go-git/go-git/v6/verifsim/core"
	"github.com/go-git/go-git/v6/verifsim/hooks"
	"github.com/go-git/go-git/v6/verifsim/simfs"
)

// ---------------------------------------------------------------- universe

var refNames = []string{"refs/heads/a", "refs/heads/b", "refs/heads/c", "refs/tags/t", "refs/remotes/o/m", "HEAD", "refs/heads/d"}

const (
	nObjs    = 10 // objects that histories may store
	nObjPool = 13 // + hashes that are never stored ("missing hash" reads)
	maxOps   = 25
)

var (
	objTypes = []plumbing.ObjectType{plumbing.BlobObject, plumbing.CommitObject, plumbing.TreeObject, plumbing.TagObject}
	reqTypes = []plumbing.ObjectType{plumbing.AnyObject, plumbing.BlobObject, plumbing.CommitObject, plumbing.TreeObject, plumbing.TagObject}
)

func mod(a, n int) int {
	if n <= 0 {
		return 0
	}
	a %= n
	if a < 0 {
		a += n
	}
	return a
}

func objType(i int) plumbing.ObjectType { return objTypes[mod(i, len(objTypes))] }

func objContent(i int) []byte {
	return []byte(strings.Repeat(fmt.Sprintf("c19 object %d\n", i), 1+mod(i, 5)))
}

func newObj(i int) plumbing.EncodedObject {
	o := plumbing.NewMemoryObject(nil)
	o.SetType(objType(i))
	_, _ = o.Write(objContent(i))
	return o
}

var objHashes = func() []plumbing.Hash {
	hs := make([]plumbing.Hash, nObjPool)
	for i := range hs {
		hs[i] = newObj(i).Hash()
	}
	return hs
}()

func objHash(i int) plumbing.Hash { return objHashes[mod(i, nObjPool)] }

func objIndexOf(h plumbing.Hash) int {
	for i, x := range objHashes {
		if x == h {
			return i
		}
	}
	return -1
}

// ---------------------------------------------------------------- plan

type RefSpec struct {
	N   int  `json:"n"`
	V   int  `json:"v"`
	Sym bool `json:"sym"`
}

type LogSpec struct {
	N int `json:"n"`
	K int `json:"k"`
}

type BaseSpec struct {
	Objs    []int     `json:"objs"`
	Refs    []RefSpec `json:"refs"`
	Index   []int     `json:"index"`
	Shallow []int     `json:"shallow"`
	Cfg     int       `json:"cfg"`
	Reflog  []LogSpec `json:"reflog"`
	Pack    bool      `json:"pack"` // filesystem base: pack the references before the transaction
}

type Op struct {
	K string `json:"k"`
	A int    `json:"a"`
	B int    `json:"b"`
	C int    `json:"c"`
}

type Plan struct {
	FS    bool         `json:"fs"`
	Base  BaseSpec     `json:"base"`
	Ops   []Op         `json:"ops"`
	Fault *simfs.Fault `json:"fault,omitempty"` // second configuration: one fault during Commit (filesystem base)
	// Mute lists signature prefixes (without "C19|") that this run does not
	// report, so that rarer divergences behind an already-triaged one surface.
	// Every divergence, muted or not, is still counted as a "div:" probe.
	Mute []string `json:"mute,omitempty"`
}

var opWeights = []struct {
	k string
	w int
}{
	{"set-obj", 8}, {"get-obj", 5}, {"has-obj", 2}, {"size-obj", 2}, {"iter-objs", 2},
	{"set-ref", 12}, {"cas-ref", 12}, {"rm-ref", 10}, {"get-ref", 4}, {"iter-refs", 3}, {"count-loose", 1}, {"pack-refs", 1},
	{"set-index", 4}, {"get-index", 1}, {"index-rmw", 1},
	{"set-shallow", 5}, {"get-shallow", 1},
	{"set-config", 4}, {"get-config", 1}, {"config-rmw", 1},
	{"reflog-append", 5}, {"reflog-delete", 4}, {"reflog-get", 1},
}

// muteable lists the signature prefixes Gen may mute.
var muteable = []string{
	"iter-refs|duplicate-name", "iter-refs|deleted-still-listed", "iter-refs|",
	"cas-ref|", "shallow|", "commit|base-differs:shallow", "commit|base-differs:refs",
	"base-unchanged|index", "base-unchanged|config", "commit-fault|",
}

func genPlan(r *core.Rand, tier string) any {
	p := &Plan{FS: r.Bool()}
	b := &p.Base
	for i := 0; i < nObjs; i++ {
		if r.Chance(2, 5) {
			b.Objs = append(b.Objs, i)
		}
	}
	for n := range refNames {
		if r.Chance(1, 2) {
			b.Refs = append(b.Refs, RefSpec{N: n, V: r.Intn(8), Sym: r.Chance(1, 5)})
		}
	}
	for i, n := 0, r.Intn(4); i < n; i++ {
		b.Index = append(b.Index, r.Intn(60))
	}
	if r.Chance(3, 4) {
		for i, n := 0, r.Range(1, 3); i < n; i++ {
			b.Shallow = append(b.Shallow, r.Intn(nObjs))
		}
	}
	b.Cfg = r.Intn(12)
	for i, n := 0, r.Intn(4); i < n; i++ {
		b.Reflog = append(b.Reflog, LogSpec{N: r.Intn(len(refNames)), K: r.Intn(50)})
	}
	b.Pack = p.FS && r.Bool()
	tot := 0
	for _, w := range opWeights {
		tot += w.w
	}
	for i, n := 0, r.Range(3, maxOps); i < n; i++ {
		x := r.Intn(tot)
		k := ""
		for _, w := range opWeights {
			if x < w.w {
				k = w.k
				break
			}
			x -= w.w
		}
		p.Ops = append(p.Ops, Op{K: k, A: r.Intn(64), B: r.Intn(64), C: r.Intn(64)})
	}
	if p.FS && r.Chance(2, 5) {
		p.Fault = &simfs.Fault{
			Class: simfs.OpClass(r.Pick("write", "write", "create", "create", "rename", "remove")),
			Nth:   r.Range(1, 6),
			Errno: r.Pick("EIO", "ENOSPC", "EACCES"),
		}
		if r.Chance(1, 3) {
			p.Fault.PathSub = r.Pick("refs/", "objects/", "packed-refs", "index", "shallow", "config", "logs/")
			p.Fault.Nth = r.Range(1, 3)
		}
	}
	if r.Chance(3, 5) {
		for _, m := range muteable {
			if r.Chance(1, 2) {
				p.Mute = append(p.Mute, m)
			}
		}
	}
	return p
}

// ---------------------------------------------------------------- model

type cfgM struct {
	Name, Email string
	Remotes     []string // sorted "name=url"
}

func (c cfgM) digest() string {
	return fmt.Sprintf("user=%s email=%s remotes=%s", c.Name, c.Email, strings.Join(c.Remotes, ","))
}

type state struct {
	refs    map[string]string // name -> "h:<hex>" | "s:<target>"
	objs    map[int]bool      // object index -> stored
	index   []string          // sorted "name|hash|mode|size"
	shallow []string          // hex, in order
	cfg     cfgM
	reflog  map[string][]string // name -> entries
}

func newState() *state {
	return &state{refs: map[string]string{}, objs: map[int]bool{}, reflog: map[string][]string{}}
}

func (s *state) clone() *state {
	c := newState()
	for k, v := range s.refs {
		c.refs[k] = v
	}
	for k, v := range s.objs {
		c.objs[k] = v
	}
	c.index = append([]string{}, s.index...)
	c.shallow = append([]string{}, s.shallow...)
	c.cfg = cfgM{s.cfg.Name, s.cfg.Email, append([]string{}, s.cfg.Remotes...)}
	for k, v := range s.reflog {
		c.reflog[k] = append([]string{}, v...)
	}
	return c
}

func refVal(r *plumbing.Reference) string {
	if r.Type() == plumbing.SymbolicReference {
		return "s:" + r.Target().String()
	}
	return "h:" + r.Hash().String()
}

func mkRef(name string, v int, sym bool) *plumbing.Reference {
	if sym {
		return plumbing.NewSymbolicReference(plumbing.ReferenceName(name), plumbing.ReferenceName(refNames[mod(v, 5)]))
	}
	return plumbing.NewHashReference(plumbing.ReferenceName(name), objHash(v))
}

func refFromVal(name, val string) *plumbing.Reference {
	if strings.HasPrefix(val, "s:") {
		return plumbing.NewSymbolicReference(plumbing.ReferenceName(name), plumbing.ReferenceName(val[2:]))
	}
	return plumbing.NewHashReference(plumbing.ReferenceName(name), plumbing.NewHash(strings.TrimPrefix(val, "h:")))
}

// hashOfVal is what Reference.Hash() returns for a stored value (zero for
// symbolic references): every storage compares old and current this way.
func hashOfVal(val string) plumbing.Hash {
	if strings.HasPrefix(val, "h:") {
		return plumbing.NewHash(val[2:])
	}
	return plumbing.ZeroHash
}

type idxEnt struct {
	name string
	hash plumbing.Hash
	size uint32
}

func idxEntOf(k int) idxEnt {
	k = mod(k, 60)
	return idxEnt{name: fmt.Sprintf("dir/f%d.txt", k%6), hash: objHash(k / 6), size: uint32(k)}
}

func (e idxEnt) String() string {
	return fmt.Sprintf("%s|%s|%o|%d", e.name, e.hash, filemode.Regular, e.size)
}

func idxEntries(ks []int) []idxEnt {
	byName := map[string]idxEnt{}
	for _, k := range ks {
		e := idxEntOf(k)
		byName[e.name] = e
	}
	names := make([]string, 0, len(byName))
	for n := range byName {
		names = append(names, n)
	}
	sort.Strings(names)
	out := make([]idxEnt, 0, len(names))
	for _, n := range names {
		out = append(out, byName[n])
	}
	return out
}

func buildIndex(es []idxEnt) (*index.Index, []string) {
	idx := &index.Index{Version: 2}
	var m []string
	for _, e := range es {
		idx.Entries = append(idx.Entries, &index.Entry{Name: e.name, Hash: e.hash, Mode: filemode.Regular, Size: e.size})
		m = append(m, e.String())
	}
	return idx, m
}

func indexDigest(idx *index.Index) []string {
	out := make([]string, 0, len(idx.Entries))
	for _, e := range idx.Entries {
		out = append(out, fmt.Sprintf("%s|%s|%o|%d", e.Name, e.Hash, e.Mode, e.Size))
	}
	sort.Strings(out)
	return out
}

func shallowOf(ks []int) ([]plumbing.Hash, []string) {
	var hs []plumbing.Hash
	var m []string
	seen := map[plumbing.Hash]bool{}
	for _, k := range ks {
		h := objHash(mod(k, nObjs))
		if seen[h] {
			continue
		}
		seen[h] = true
		hs = append(hs, h)
		m = append(m, h.String())
	}
	return hs, m
}

func cfgOf(k int) (*config.Config, cfgM) {
	k = mod(k, 12)
	c := config.NewConfig()
	m := cfgM{Name: fmt.Sprintf("user%d", k%4)}
	c.User.Name = m.Name
	if k%2 == 1 {
		name, url := fmt.Sprintf("r%d", k%3), fmt.Sprintf("https://example.com/%d.git", k)
		c.Remotes[name] = &config.RemoteConfig{Name: name, URLs: []string{url}}
		m.Remotes = []string{name + "=" + url}
	}
	return c, m
}

func cfgDigest(c *config.Config) string {
	m := cfgM{Name: c.User.Name, Email: c.User.Email}
	for n, r := range c.Remotes {
		m.Remotes = append(m.Remotes, n+"="+strings.Join(r.URLs, "+"))
	}
	sort.Strings(m.Remotes)
	return m.digest()
}

func logEntry(k int) (*reflog.Entry, string) {
	k = mod(k, 50)
	e := &reflog.Entry{OldHash: objHash(k), NewHash: objHash(k + 1),
		Committer: reflog.Signature{Name: "C Nineteen", Email: "c19@example.com", When: time.Unix(1_700_000_000+int64(k), 0).UTC()},
		Message:   fmt.Sprintf("update %d", k)}
	return e, logDigest(e)
}

func logDigest(e *reflog.Entry) string {
	return fmt.Sprintf("%s>%s %s <%s> %d %s", e.OldHash, e.NewHash, e.Committer.Name, e.Committer.Email, e.Committer.When.Unix(), e.Message)
}

// ---------------------------------------------------------------- deterministic temporal storage

// detStorage is memory.Storage with its two map-ordered listings sorted, so
// that the order in which Commit writes to the base is a function of the plan.
type detStorage struct{ *memory.Storage }

func (s *detStorage) IterReferences() (storer.ReferenceIter, error) {
	it, err := s.Storage.IterReferences()
	if err != nil {
		return nil, err
	}
	var refs []*plumbing.Reference
	_ = it.ForEach(func(r *plumbing.Reference) error { refs = append(refs, r); return nil })
	sort.Slice(refs, func(i, j int) bool { return refs[i].Name() < refs[j].Name() })
	return storer.NewReferenceSliceIter(refs), nil
}

func (s *detStorage) IterEncodedObjects(t plumbing.ObjectType) (storer.EncodedObjectIter, error) {
	it, err := s.Storage.IterEncodedObjects(t)
	if err != nil {
		return nil, err
	}
	var objs []plumbing.EncodedObject
	_ = it.ForEach(func(o plumbing.EncodedObject) error { objs = append(objs, o); return nil })
	sort.Slice(objs, func(i, j int) bool { return objs[i].Hash().String() < objs[j].Hash().String() })
	return storer.NewEncodedObjectSliceIter(objs), nil
}

// ---------------------------------------------------------------- snapshot of a storage

const (
	absent = "absent"
)

func errKind(err error) string {
	switch {
	case err == nil:
		return "ok"
	case errors.Is(err, plumbing.ErrObjectNotFound):
		return "notfound"
	case errors.Is(err, plumbing.ErrReferenceNotFound):
		return "notfound"
	case errors.Is(err, storage.ErrReferenceHasChanged):
		return "changed"
	case simfs.IsInjected(err):
		return "injected"
	}
	return "error"
}

type snapshot struct {
	ref      map[string]string   // per-name read: value, absent or "!<error>"
	list     map[string][]string // listing: name -> values in listing order
	listErr  string
	obj      map[int]string // EncodedObject(Any): absent | ok | bad-* | !<error>
	has      map[int]string
	size     map[int]string
	iter     map[plumbing.Hash]int
	iterErr  string
	index    []string
	indexErr string
	shallow  []string
	shalErr  string
	cfg      string
	cfgErr   string
	reflog   map[string][]string
	logErr   map[string]string
}

func readObj(st storer.EncodedObjectStorer, t plumbing.ObjectType, i int) string {
	o, err := st.EncodedObject(t, objHash(i))
	if err != nil {
		if errKind(err) == "notfound" {
			return absent
		}
		return "!" + err.Error()
	}
	if o.Type() != objType(i) {
		return "bad-type"
	}
	want := objContent(i)
	if o.Size() != int64(len(want)) {
		return "bad-size"
	}
	rd, err := o.Reader()
	if err != nil {
		return "!" + err.Error()
	}
	b, err := io.ReadAll(rd)
	_ = rd.Close()
	if err != nil {
		return "!" + err.Error()
	}
	if !bytes.Equal(b, want) {
		return "bad-content"
	}
	return "ok"
}

func snap(st storage.Storer) *snapshot {
	s := &snapshot{ref: map[string]string{}, list: map[string][]string{}, obj: map[int]string{}, has: map[int]string{}, size: map[int]string{},
		iter: map[plumbing.Hash]int{}, reflog: map[string][]string{}, logErr: map[string]string{}}
	for _, n := range refNames {
		r, err := st.Reference(plumbing.ReferenceName(n))
		switch {
		case err == nil:
			s.ref[n] = refVal(r)
		case errKind(err) == "notfound":
			s.ref[n] = absent
		default:
			s.ref[n] = "!" + err.Error()
		}
	}
	if it, err := st.IterReferences(); err != nil {
		s.listErr = err.Error()
	} else {
		err = it.ForEach(func(r *plumbing.Reference) error {
			n := r.Name().String()
			s.list[n] = append(s.list[n], refVal(r))
			return nil
		})
		if err != nil {
			s.listErr = err.Error()
		}
	}
	for i := 0; i < nObjPool; i++ {
		s.obj[i] = readObj(st, plumbing.AnyObject, i)
		switch err := st.HasEncodedObject(objHash(i)); errKind(err) {
		case "ok":
			s.has[i] = "ok"
		case "notfound":
			s.has[i] = absent
		default:
			s.has[i] = "!" + err.Error()
		}
		sz, err := st.EncodedObjectSize(objHash(i))
		switch errKind(err) {
		case "ok":
			if sz == int64(len(objContent(i))) {
				s.size[i] = "ok"
			} else {
				s.size[i] = "bad-size"
			}
		case "notfound":
			s.size[i] = absent
		default:
			s.size[i] = "!" + err.Error()
		}
	}
	if it, err := st.IterEncodedObjects(plumbing.AnyObject); err != nil {
		s.iterErr = err.Error()
	} else {
		err = it.ForEach(func(o plumbing.EncodedObject) error { s.iter[o.Hash()]++; return nil })
		if err != nil {
			s.iterErr = err.Error()
		}
	}
	if idx, err := st.Index(); err != nil {
		s.indexErr = err.Error()
	} else {
		s.index = indexDigest(idx)
	}
	if sh, err := st.Shallow(); err != nil {
		s.shalErr = err.Error()
	} else {
		for _, h := range sh {
			s.shallow = append(s.shallow, h.String())
		}
	}
	if c, err := st.Config(); err != nil {
		s.cfgErr = err.Error()
	} else {
		s.cfg = cfgDigest(c)
	}
	if rl, ok := st.(storer.ReflogStorer); ok {
		for _, n := range refNames {
			es, err := rl.Reflog(plumbing.ReferenceName(n))
			if err != nil {
				s.logErr[n] = err.Error()
				continue
			}
			for _, e := range es {
				s.reflog[n] = append(s.reflog[n], logDigest(e))
			}
		}
	}
	return s
}

type diff struct {
	comp string // refs list objs has size iter-objs index shallow config reflog
	kind string
	key  string // reference name or object index ("" for single-valued components)
	msg  string
}

func sameStrings(a, b []string) bool {
	if len(a) != len(b) {
		return false
	}
	for i := range a {
		if a[i] != b[i] {
			return false
		}
	}
	return true
}

func presence(got string, want bool) string {
	switch {
	case strings.HasPrefix(got, "!"):
		return "error"
	case got == absent && want:
		return "want-found-got-notfound"
	case got != absent && !want:
		return "want-notfound-got-found"
	case got != absent && got != "ok":
		return got
	}
	return ""
}

// diffSnap compares what was read from a storage with a model state.
func diffSnap(s *snapshot, m *state, hasReflog bool) []diff {
	var ds []diff
	for _, n := range refNames {
		want, ok := m.refs[n]
		got := s.ref[n]
		switch {
		case strings.HasPrefix(got, "!"):
			ds = append(ds, diff{"refs", "error", n, fmt.Sprintf("Reference(%s): %s", n, got[1:])})
		case ok && got == absent:
			ds = append(ds, diff{"refs", "want-found-got-notfound", n, fmt.Sprintf("Reference(%s) = not found, model has %s", n, want)})
		case !ok && got != absent:
			ds = append(ds, diff{"refs", "want-notfound-got-found", n, fmt.Sprintf("Reference(%s) = %s, model has no such reference", n, got)})
		case ok && got != want:
			ds = append(ds, diff{"refs", "wrong-value", n, fmt.Sprintf("Reference(%s) = %s, model has %s", n, got, want)})
		}
	}
	if s.listErr != "" {
		ds = append(ds, diff{"list", "error", "", "IterReferences: " + s.listErr})
	} else {
		names := map[string]bool{}
		for n := range s.list {
			names[n] = true
		}
		for n := range m.refs {
			names[n] = true
		}
		sorted := make([]string, 0, len(names))
		for n := range names {
			sorted = append(sorted, n)
		}
		sort.Strings(sorted)
		for _, n := range sorted {
			got, want := s.list[n], m.refs[n]
			_, ok := m.refs[n]
			switch {
			case len(got) > 1:
				ds = append(ds, diff{"list", "duplicate-name", n, fmt.Sprintf("IterReferences lists %s %d times (%s), model has it once (%q)", n, len(got), strings.Join(got, ", "), want)})
			case len(got) == 1 && !ok:
				ds = append(ds, diff{"list", "listed-but-absent", n, fmt.Sprintf("IterReferences lists %s = %s, model has no such reference", n, got[0])})
			case len(got) == 0 && ok:
				ds = append(ds, diff{"list", "missing-from-listing", n, fmt.Sprintf("IterReferences does not list %s, model has %s", n, want)})
			case len(got) == 1 && got[0] != want:
				ds = append(ds, diff{"list", "wrong-value-listed", n, fmt.Sprintf("IterReferences lists %s = %s, model has %s", n, got[0], want)})
			}
		}
	}
	for i := 0; i < nObjPool; i++ {
		if k := presence(s.obj[i], m.objs[i]); k != "" {
			ds = append(ds, diff{"objs", k, fmt.Sprint(i), fmt.Sprintf("EncodedObject(any, object #%d) = %s, model stored=%v", i, s.obj[i], m.objs[i])})
		}
		if k := presence(s.has[i], m.objs[i]); k != "" {
			ds = append(ds, diff{"has", k, fmt.Sprint(i), fmt.Sprintf("HasEncodedObject(object #%d) = %s, model stored=%v", i, s.has[i], m.objs[i])})
		}
		if k := presence(s.size[i], m.objs[i]); k != "" {
			ds = append(ds, diff{"size", k, fmt.Sprint(i), fmt.Sprintf("EncodedObjectSize(object #%d) = %s, model stored=%v", i, s.size[i], m.objs[i])})
		}
	}
	if s.iterErr != "" {
		ds = append(ds, diff{"iter-objs", "error", "", "IterEncodedObjects: " + s.iterErr})
	} else {
		for i := 0; i < nObjPool; i++ {
			n := s.iter[objHash(i)]
			switch {
			case n == 0 && m.objs[i]:
				ds = append(ds, diff{"iter-objs", "missing-from-listing", fmt.Sprint(i), fmt.Sprintf("IterEncodedObjects(any) does not list object #%d", i)})
			case n > 0 && !m.objs[i]:
				ds = append(ds, diff{"iter-objs", "listed-but-absent", fmt.Sprint(i), fmt.Sprintf("IterEncodedObjects(any) lists object #%d which the model does not have", i)})
			}
		}
		hs := make([]string, 0)
		for h := range s.iter {
			if objIndexOf(h) < 0 {
				hs = append(hs, h.String())
			}
		}
		if len(hs) > 0 {
			sort.Strings(hs)
			ds = append(ds, diff{"iter-objs", "unknown-object", "", "IterEncodedObjects lists unknown objects " + strings.Join(hs, ",")})
		}
	}
	switch {
	case s.indexErr != "":
		ds = append(ds, diff{"index", "error", "", "Index(): " + s.indexErr})
	case !sameStrings(s.index, m.index):
		ds = append(ds, diff{"index", "differs", "", fmt.Sprintf("Index() entries %v, model %v", s.index, m.index)})
	}
	switch {
	case s.shalErr != "":
		ds = append(ds, diff{"shallow", "error", "", "Shallow(): " + s.shalErr})
	case !sameStrings(s.shallow, m.shallow):
		ds = append(ds, diff{"shallow", "differs", "", fmt.Sprintf("Shallow() = %v, model %v", s.shallow, m.shallow)})
	}
	switch {
	case s.cfgErr != "":
		ds = append(ds, diff{"config", "error", "", "Config(): " + s.cfgErr})
	case s.cfg != m.cfg.digest():
		ds = append(ds, diff{"config", "differs", "", fmt.Sprintf("Config() = {%s}, model {%s}", s.cfg, m.cfg.digest())})
	}
	if hasReflog {
		for _, n := range refNames {
			switch {
			case s.logErr[n] != "":
				ds = append(ds, diff{"reflog", "error", n, fmt.Sprintf("Reflog(%s): %s", n, s.logErr[n])})
			case !sameStrings(s.reflog[n], m.reflog[n]):
				ds = append(ds, diff{"reflog", "differs", n, fmt.Sprintf("Reflog(%s) = %v, model %v", n, s.reflog[n], m.reflog[n])})
			}
		}
	}
	return ds
}

// ---------------------------------------------------------------- the run

type run struct {
	p     *Plan
	out   *core.Outcome
	trace []string
	seen  map[string]bool

	disk  *simfs.Disk
	base  storage.Storer
	tx    transactional.Storage
	baseM *state
	viewM *state

	// mirrors of the transaction's bookkeeping, used only to name state classes
	pendingRef  map[string]bool // name is in the temporal storage
	deletedRef  map[string]bool // name is in the deleted set
	pendingObj  map[int]bool
	shallowSet  string // "" none | empty | nonempty
	indexSet    string // "" none | set | rmw
	configSet   string
	logAppended map[string]bool
	logDeleted  map[string]bool
	nontrivial  bool
}

func (r *run) logf(format string, args ...any) {
	if len(r.trace) < 400 {
		r.trace = append(r.trace, fmt.Sprintf(format, args...))
	}
}

// diverge records a divergence; it becomes the outcome unless muted.
func (r *run) diverge(sig, format string, args ...any) {
	full := "C19|" + sig
	if !r.seen[full] {
		r.seen[full] = true
		r.out.Probe("div:" + full)
		r.logf("  DIVERGENCE %s: %s", full, fmt.Sprintf(format, args...))
	}
	for _, m := range r.p.Mute {
		if m != "" && strings.HasPrefix(sig, m) {
			return
		}
	}
	r.out.Fail(full, format, args...)
}

func (r *run) refClass(n string) string {
	_, inBase := r.baseM.refs[n]
	switch {
	case inBase && r.deletedRef[n]:
		return "deleted-base-ref"
	case inBase && r.pendingRef[n]:
		return "overwritten-base-ref"
	case inBase:
		return "base-ref"
	case r.deletedRef[n]:
		return "deleted-nonbase-ref"
	case r.pendingRef[n]:
		return "pending-ref"
	}
	return "absent-ref"
}

func (r *run) objClass(i int) string {
	switch {
	case i >= nObjs:
		return "never-stored-object"
	case r.baseM.objs[i] && r.pendingObj[i]:
		return "object-in-both"
	case r.baseM.objs[i]:
		return "base-object"
	case r.pendingObj[i]:
		return "pending-object"
	}
	return "absent-object"
}

func orNone(s string) string {
	if s == "" {
		return "none"
	}
	return s
}

func emptiness(n int) string {
	if n == 0 {
		return "empty"
	}
	return "nonempty"
}

func (r *run) compClass(d diff) string {
	switch d.comp {
	case "refs", "list":
		if d.key == "" {
			return "-"
		}
		return r.refClass(d.key)
	case "objs", "has", "size", "iter-objs":
		if d.key == "" {
			return "-"
		}
		i := 0
		fmt.Sscan(d.key, &i)
		return r.objClass(i)
	case "index":
		return "pending-" + orNone(r.indexSet)
	case "shallow":
		return "pending-" + orNone(r.shallowSet) + "-over-" + emptiness(len(r.baseM.shallow)) + "-base"
	case "config":
		return "pending-" + orNone(r.configSet)
	case "reflog":
		_, inBase := r.baseM.reflog[d.key]
		c := "nonbase-log"
		if inBase {
			c = "base-log"
		}
		if r.logDeleted[d.key] {
			c += "-deleted"
		}
		if r.logAppended[d.key] {
			c += "-appended"
		}
		return c
	}
	return "-"
}

var viewOpName = map[string]string{"refs": "get-ref", "list": "iter-refs", "objs": "get-obj", "has": "has-obj", "size": "size-obj",
	"iter-objs": "iter-objs", "index": "index", "shallow": "shallow", "config": "config", "reflog": "reflog"}

func (r *run) hasReflog(st storage.Storer) bool {
	_, ok := st.(storer.ReflogStorer)
	return ok
}

// checkView reads everything through the transactional storage and compares
// it with the view model.
func (r *run) checkView(after string) {
	for _, d := range diffSnap(snap(r.tx), r.viewM, r.hasReflog(r.tx)) {
		kind := d.kind
		if d.comp == "list" && kind == "listed-but-absent" && r.deletedRef[d.key] {
			kind = "deleted-still-listed"
		}
		r.diverge(fmt.Sprintf("%s|%s|%s", viewOpName[d.comp], kind, r.compClass(d)), "after %s, through the transactional storage: %s", after, d.msg)
	}
}

// checkBase reads the base directly and compares it with the base model.
func (r *run) checkBase(after string) {
	for _, d := range diffSnap(snap(r.base), r.baseM, r.hasReflog(r.base)) {
		// the operation kind is not part of the signature: a change of the base
		// stays visible after every later operation
		r.diverge(fmt.Sprintf("base-unchanged|%s-changed-before-commit|%s", d.comp, r.compClass(d)), "after %s, base storage read directly (no Commit yet): %s", after, d.msg)
	}
}

func (r *run) applySetRef(n, val string) {
	if _, ok := r.baseM.refs[n]; ok {
		r.out.Probe("overwrite-base-ref")
		r.nontrivial = true
	}
	if r.deletedRef[n] {
		r.out.Probe("set-after-delete")
	}
	r.viewM.refs[n] = val
	r.pendingRef[n] = true
	delete(r.deletedRef, n)
}

// calibration: what the transactional storage answers to a conditional set on
// a name that never existed, per base kind.
var absentCAS = map[bool]string{}

func absentCASKind(fs bool) string {
	if k, ok := absentCAS[fs]; ok {
		return k
	}
	var base storage.Storer = memory.NewStorage()
	var closer io.Closer
	if fs {
		d := simfs.NewDisk()
		st := filesystem.NewStorage(d.FS("/g", "cal"), cache.NewObjectLRUDefault())
		_ = st.Init()
		base, closer = st, st
	}
	tx := transactional.NewStorage(base, &detStorage{memory.NewStorage()})
	n := "refs/heads/never"
	k := errKind(tx.CheckAndSetReference(mkRef(n, 1, false), mkRef(n, 2, false)))
	if closer != nil {
		_ = closer.Close()
	}
	absentCAS[fs] = k
	return k
}

func (r *run) faultMode() bool { return r.p.Fault != nil && r.p.FS }

// step executes one history operation and compares its own result.
func (r *run) step(i int, op Op) {
	tx, v := r.tx, r.viewM
	name := refNames[mod(op.A, len(refNames))]
	rn := plumbing.ReferenceName(name)
	switch op.K {
	case "set-obj":
		k := mod(op.A, nObjs)
		cls := r.objClass(k)
		h, err := tx.SetEncodedObject(newObj(k))
		r.logf("%d set-obj #%d (%s) -> %s", i, k, cls, errKind(err))
		if err != nil || h != objHash(k) {
			r.diverge("set-obj|unexpected-result|"+cls, "SetEncodedObject(object #%d) = %s, %v; want %s, nil", k, h, err, objHash(k))
		}
		if err == nil {
			if r.baseM.objs[k] {
				r.out.Probe("object-in-both")
			}
			v.objs[k] = true
			r.pendingObj[k] = true
		}
	case "get-obj":
		k := mod(op.A, nObjPool)
		t := reqTypes[mod(op.B, len(reqTypes))]
		cls := r.objClass(k)
		want := v.objs[k] && (t == plumbing.AnyObject || t == objType(k))
		if v.objs[k] && !want {
			cls += ":wrong-type-request"
			r.out.Probe("wrong-type-request")
		}
		got := readObj(tx, t, k)
		r.logf("%d get-obj %s #%d (%s) -> %s", i, t, k, cls, strings.SplitN(got, ":", 2)[0])
		if kd := presence(got, want); kd != "" {
			r.diverge("get-obj|"+kd+"|"+cls, "EncodedObject(%s, object #%d of type %s) = %s, view model stored=%v", t, k, objType(k), got, v.objs[k])
		}
	case "has-obj":
		k := mod(op.A, nObjPool)
		err := tx.HasEncodedObject(objHash(k))
		r.logf("%d has-obj #%d (%s) -> %s", i, k, r.objClass(k), errKind(err))
		if (errKind(err) == "ok") != v.objs[k] || errKind(err) == "error" {
			r.diverge("has-obj|wrong-answer|"+r.objClass(k), "HasEncodedObject(object #%d) = %v, view model stored=%v", k, err, v.objs[k])
		}
	case "size-obj":
		k := mod(op.A, nObjPool)
		sz, err := tx.EncodedObjectSize(objHash(k))
		r.logf("%d size-obj #%d (%s) -> %s", i, k, r.objClass(k), errKind(err))
		if (errKind(err) == "ok") != v.objs[k] || errKind(err) == "error" || (err == nil && sz != int64(len(objContent(k)))) {
			r.diverge("size-obj|wrong-answer|"+r.objClass(k), "EncodedObjectSize(object #%d) = %d, %v, view model stored=%v size=%d", k, sz, err, v.objs[k], len(objContent(k)))
		}
	case "iter-objs":
		t := reqTypes[mod(op.A, len(reqTypes))]
		got := map[plumbing.Hash]int{}
		it, err := tx.IterEncodedObjects(t)
		if err == nil {
			err = it.ForEach(func(o plumbing.EncodedObject) error { got[o.Hash()]++; return nil })
		}
		r.logf("%d iter-objs %s -> %s n=%d", i, t, errKind(err), len(got))
		if err != nil {
			r.diverge("iter-objs|error|-", "IterEncodedObjects(%s): %v", t, err)
			break
		}
		for k := 0; k < nObjPool; k++ {
			want := v.objs[k] && (t == plumbing.AnyObject || t == objType(k))
			n := got[objHash(k)]
			if n > 1 {
				r.out.Probe("iter-objs-duplicate")
			}
			if (n > 0) != want {
				kd := "missing-from-listing"
				if n > 0 {
					kd = "listed-but-absent"
				}
				r.diverge("iter-objs|"+kd+"|"+r.objClass(k), "IterEncodedObjects(%s) lists object #%d (%s) %d times, view model wants listed=%v", t, k, objType(k), n, want)
			}
		}
	case "set-ref":
		ref := mkRef(name, op.B, op.C%5 == 0)
		cls := r.refClass(name)
		err := tx.SetReference(ref)
		r.logf("%d set-ref %s=%s (%s) -> %s", i, name, refVal(ref), cls, errKind(err))
		if err != nil {
			r.diverge("set-ref|unexpected-error|"+cls, "SetReference(%s): %v", name, err)
			break
		}
		r.applySetRef(name, refVal(ref))
	case "cas-ref":
		ref := mkRef(name, op.B, op.C%7 == 0)
		cls := r.refClass(name)
		cur, has := v.refs[name]
		var old *plumbing.Reference
		mode := mod(op.C, 4)
		stale := func() *plumbing.Reference {
			// differs from the view's value and from the (possibly hidden) base value
			bv, inBase := r.baseM.refs[name]
			for k := 0; k < nObjPool; k++ {
				if (!has || objHash(k) != hashOfVal(cur)) && (!inBase || objHash(k) != hashOfVal(bv)) {
					return plumbing.NewHashReference(rn, objHash(k))
				}
			}
			return plumbing.NewHashReference(rn, objHash(0))
		}
		modeName := ""
		switch mode {
		case 0:
			modeName = "old=nil"
		case 1:
			modeName = "old=current"
			if has {
				old = refFromVal(name, cur)
			} else {
				old = plumbing.NewHashReference(rn, objHash(op.B+1))
			}
		case 2:
			modeName = "old=stale"
			old = stale()
		case 3:
			modeName = "old=base-value"
			if bv, ok := r.baseM.refs[name]; ok {
				old = refFromVal(name, bv)
			} else {
				old = stale()
			}
		}
		want := "ok"
		switch {
		case old == nil:
		case has && hashOfVal(cur) != old.Hash():
			want = "changed"
		case !has && cls == "absent-ref":
			want = "" // not defined by the property: follow the storage
		case !has:
			want = absentCASKind(r.p.FS)
			r.out.Probe("cas-on-deleted")
		}
		err := tx.CheckAndSetReference(ref, old)
		got := errKind(err)
		r.logf("%d cas-ref %s=%s %s (%s) -> %s", i, name, refVal(ref), modeName, cls, got)
		if want == "" {
			if got != "ok" && got != "notfound" {
				r.diverge("cas-ref|unexpected-"+got+"|"+cls, "CheckAndSetReference(%s, %s) on a never-existing name: %v", name, modeName, err)
			}
		} else if got != want {
			kd := "want-" + want + "-got-" + got
			if strings.HasPrefix(cls, "deleted-") && got == "ok" {
				kd = "succeeded-on-deleted-ref"
			} else if strings.HasPrefix(cls, "deleted-") && got == "changed" {
				kd = "compared-with-deleted-ref"
			}
			oldS := "nil"
			if old != nil {
				oldS = refVal(old)
			}
			r.diverge("cas-ref|"+kd+"|"+cls, "CheckAndSetReference(%s=%s, old=%s [%s]) = %v; view model: current=%q present=%v, so the answer should be %q (a name absent from the view answers %q)",
				name, refVal(ref), oldS, modeName, err, cur, has, want, absentCASKind(r.p.FS))
		}
		if got == "ok" { // follow the storage so that later comparisons stay meaningful
			r.applySetRef(name, refVal(ref))
		}
	case "rm-ref":
		cls := r.refClass(name)
		if r.faultMode() {
			// the deleted set is a Go map walked by Commit: keep it to one name
			// so the order of Commit's disk operations is a function of the plan
			other := false
			for n := range r.deletedRef {
				if n != name {
					other = true
				}
			}
			if other {
				r.logf("%d rm-ref %s skipped (fault configuration keeps one pending deletion)", i, name)
				break
			}
		}
		err := tx.RemoveReference(rn)
		r.logf("%d rm-ref %s (%s) -> %s", i, name, cls, errKind(err))
		if err != nil {
			r.diverge("rm-ref|unexpected-error|"+cls, "RemoveReference(%s): %v", name, err)
			break
		}
		switch {
		case cls == "base-ref" || cls == "overwritten-base-ref":
			r.out.Probe("delete-base-ref")
			r.nontrivial = true
		case cls == "pending-ref":
			r.out.Probe("delete-pending-ref")
		case cls == "absent-ref":
			r.out.Probe("delete-missing-ref")
		}
		if cls == "overwritten-base-ref" {
			r.out.Probe("delete-overwritten-base-ref")
		}
		delete(v.refs, name)
		delete(r.pendingRef, name)
		r.deletedRef[name] = true
	case "get-ref":
		cls := r.refClass(name)
		ref, err := tx.Reference(rn)
		got := absent
		if err == nil {
			got = refVal(ref)
		} else if errKind(err) != "notfound" {
			got = "!" + err.Error()
		}
		r.logf("%d get-ref %s (%s) -> %s", i, name, cls, errKind(err))
		want, ok := v.refs[name]
		if !ok {
			want = absent
		}
		if got != want {
			r.diverge("get-ref|wrong-answer|"+cls, "Reference(%s) = %s, view model %s", name, got, want)
		}
	case "iter-refs":
		// the comparison itself is checkView's (exact multiset)
		n := 0
		it, err := tx.IterReferences()
		if err == nil {
			err = it.ForEach(func(*plumbing.Reference) error { n++; return nil })
		}
		r.logf("%d iter-refs -> %s listed=%d view=%d", i, errKind(err), n, len(v.refs))
	case "count-loose":
		n, err := tx.CountLooseRefs()
		r.logf("%d count-loose -> %s %d", i, errKind(err), n)
		if err != nil {
			r.diverge("count-loose|unexpected-error|-", "CountLooseRefs: %v", err)
		} else if !r.p.FS && n != len(v.refs) {
			r.out.Probe("count-loose-differs-from-view")
		}
	case "pack-refs":
		err := tx.PackRefs()
		r.logf("%d pack-refs -> %s", i, errKind(err))
		if err != nil {
			r.diverge("pack-refs|unexpected-error|-", "PackRefs: %v", err)
		}
	case "set-index":
		var ks []int
		for j := 0; j < mod(op.A, 4); j++ {
			ks = append(ks, op.B+j*11)
		}
		idx, m := buildIndex(idxEntries(ks))
		err := tx.SetIndex(idx)
		r.logf("%d set-index n=%d -> %s", i, len(m), errKind(err))
		if err != nil {
			r.diverge("set-index|unexpected-error|-", "SetIndex: %v", err)
			break
		}
		if len(r.baseM.index) > 0 {
			r.nontrivial = true
			r.out.Probe("overwrite-base-index")
		}
		v.index = m
		if r.indexSet != "rmw" { // sticky: a read-modify-write may have aliased the base's value
			r.indexSet = "set"
		}
	case "get-index":
		idx, err := tx.Index()
		r.logf("%d get-index -> %s", i, errKind(err))
		if err != nil {
			r.diverge("index|error|pending-"+orNone(r.indexSet), "Index(): %v", err)
		} else if got := indexDigest(idx); !sameStrings(got, v.index) {
			r.diverge("index|differs|pending-"+orNone(r.indexSet), "Index() entries %v, view model %v", got, v.index)
		}
	case "index-rmw":
		// the usual go-git idiom (Worktree.Add): read the index, change the
		// returned value, write it back
		idx, err := tx.Index()
		if err != nil {
			r.logf("%d index-rmw -> read %s", i, errKind(err))
			r.diverge("index|error|pending-"+orNone(r.indexSet), "Index(): %v", err)
			break
		}
		e := idxEntOf(op.A)
		_, _ = idx.Remove(e.name)
		ne, err := idx.Add(e.name)
		if err != nil {
			r.logf("%d index-rmw -> add %v", i, err)
			break
		}
		ne.Hash, ne.Mode, ne.Size = e.hash, filemode.Regular, e.size
		err = tx.SetIndex(idx)
		r.logf("%d index-rmw %s -> %s", i, e.name, errKind(err))
		if err != nil {
			r.diverge("index-rmw|unexpected-error|-", "SetIndex: %v", err)
			break
		}
		var m []string
		for _, s := range v.index {
			if !strings.HasPrefix(s, e.name+"|") {
				m = append(m, s)
			}
		}
		m = append(m, e.String())
		sort.Strings(m)
		v.index = m
		r.indexSet = "rmw"
		r.out.Probe("index-rmw")
	case "set-shallow":
		var ks []int
		for j := 0; j < 4; j++ {
			if mod(op.A, 16)&(1<<j) != 0 {
				ks = append(ks, op.B+j)
			}
		}
		hs, m := shallowOf(ks)
		err := tx.SetShallow(hs)
		r.logf("%d set-shallow n=%d -> %s", i, len(hs), errKind(err))
		if err != nil {
			r.diverge("set-shallow|unexpected-error|-", "SetShallow: %v", err)
			break
		}
		if len(r.baseM.shallow) > 0 {
			r.nontrivial = true
			r.out.Probe("overwrite-base-shallow")
		}
		if len(hs) == 0 {
			r.out.Probe("set-shallow-empty")
		}
		v.shallow = m
		r.shallowSet = emptiness(len(hs))
	case "get-shallow":
		hs, err := tx.Shallow()
		var got []string
		for _, h := range hs {
			got = append(got, h.String())
		}
		cls := r.compClass(diff{comp: "shallow"})
		r.logf("%d get-shallow (%s) -> %s n=%d", i, cls, errKind(err), len(hs))
		if err != nil {
			r.diverge("shallow|error|"+cls, "Shallow(): %v", err)
		} else if !sameStrings(got, v.shallow) {
			r.diverge("shallow|differs|"+cls, "Shallow() = %v, view model %v", got, v.shallow)
		}
	case "set-config":
		c, m := cfgOf(op.A)
		err := tx.SetConfig(c)
		r.logf("%d set-config %d -> %s", i, mod(op.A, 12), errKind(err))
		if err != nil {
			r.diverge("set-config|unexpected-error|-", "SetConfig: %v", err)
			break
		}
		r.nontrivial = true
		v.cfg = m
		if r.configSet != "rmw" {
			r.configSet = "set"
		}
	case "get-config":
		c, err := tx.Config()
		r.logf("%d get-config -> %s", i, errKind(err))
		if err != nil {
			r.diverge("config|error|pending-"+orNone(r.configSet), "Config(): %v", err)
		} else if got := cfgDigest(c); got != v.cfg.digest() {
			r.diverge("config|differs|pending-"+orNone(r.configSet), "Config() = {%s}, view model {%s}", got, v.cfg.digest())
		}
	case "config-rmw":
		// the usual go-git idiom (Repository.CreateRemote, ...): read the
		// config, change the returned value, write it back
		c, err := tx.Config()
		if err != nil {
			r.logf("%d config-rmw -> read %s", i, errKind(err))
			r.diverge("config|error|pending-"+orNone(r.configSet), "Config(): %v", err)
			break
		}
		c.User.Email = fmt.Sprintf("e%d@example.com", mod(op.A, 7))
		err = tx.SetConfig(c)
		r.logf("%d config-rmw -> %s", i, errKind(err))
		if err != nil {
			r.diverge("config-rmw|unexpected-error|-", "SetConfig: %v", err)
			break
		}
		v.cfg.Email = c.User.Email
		r.configSet = "rmw"
		r.out.Probe("config-rmw")
	case "reflog-append", "reflog-delete", "reflog-get":
		rl, ok := tx.(storer.ReflogStorer)
		if !ok {
			r.logf("%d %s: transactional storage has no reflog", i, op.K)
			r.out.Probe("no-reflog")
			break
		}
		cls := r.compClass(diff{comp: "reflog", key: name})
		only := func(set map[string]bool) bool { // fault configuration: one name per Go map walked by Commit
			if !r.faultMode() {
				return true
			}
			for n := range set {
				if n != name {
					return false
				}
			}
			return true
		}
		switch op.K {
		case "reflog-append":
			if !only(r.logAppended) {
				r.logf("%d reflog-append %s skipped (fault configuration)", i, name)
				break
			}
			e, m := logEntry(op.B)
			err := rl.AppendReflog(rn, e)
			r.logf("%d reflog-append %s (%s) -> %s", i, name, cls, errKind(err))
			if err != nil {
				r.diverge("reflog-append|unexpected-error|"+cls, "AppendReflog(%s): %v", name, err)
				break
			}
			v.reflog[name] = append(v.reflog[name], m)
			r.logAppended[name] = true
			r.out.Probe("reflog-append")
		case "reflog-delete":
			if !only(r.logDeleted) {
				r.logf("%d reflog-delete %s skipped (fault configuration)", i, name)
				break
			}
			err := rl.DeleteReflog(rn)
			r.logf("%d reflog-delete %s (%s) -> %s", i, name, cls, errKind(err))
			if err != nil {
				r.diverge("reflog-delete|unexpected-error|"+cls, "DeleteReflog(%s): %v", name, err)
				break
			}
			if len(r.baseM.reflog[name]) > 0 {
				r.nontrivial = true
				r.out.Probe("delete-base-reflog")
			}
			delete(v.reflog, name)
			delete(r.logAppended, name)
			r.logDeleted[name] = true
		case "reflog-get":
			es, err := rl.Reflog(rn)
			var got []string
			for _, e := range es {
				got = append(got, logDigest(e))
			}
			r.logf("%d reflog-get %s (%s) -> %s n=%d", i, name, cls, errKind(err), len(es))
			if err != nil {
				r.diverge("reflog|error|"+cls, "Reflog(%s): %v", name, err)
			} else if !sameStrings(got, v.reflog[name]) {
				r.diverge("reflog|differs|"+cls, "Reflog(%s) = %v, view model %v", name, got, v.reflog[name])
			}
		}
	default:
		r.logf("%d %q: unknown operation, skipped", i, op.K)
	}
}

// populate fills the base through its own API and returns its model.
func populate(base storage.Storer, b *BaseSpec, fs *filesystem.Storage) (*state, error) {
	m := newState()
	for _, k := range b.Objs {
		k = mod(k, nObjs)
		if _, err := base.SetEncodedObject(newObj(k)); err != nil {
			return nil, err
		}
		m.objs[k] = true
	}
	pack := fs != nil && b.Pack
	setRefs := func(sym bool) error {
		for _, rs := range b.Refs {
			n := refNames[mod(rs.N, len(refNames))]
			if (rs.Sym && pack) != sym {
				continue
			}
			ref := mkRef(n, rs.V, rs.Sym)
			if err := base.SetReference(ref); err != nil {
				return err
			}
			m.refs[n] = refVal(ref)
		}
		return nil
	}
	if err := setRefs(false); err != nil {
		return nil, err
	}
	if pack {
		// symbolic references are written after packing: DotGit.PackRefs writes
		// a symbolic reference under refs/ into packed-refs as "ref: x name",
		// which makes the whole file unreadable ("malformed packed-ref") — a
		// defect of PackRefs, but not the subject of this property
		if err := fs.PackRefs(); err != nil {
			return nil, err
		}
		if err := setRefs(true); err != nil {
			return nil, err
		}
	}
	if len(b.Index) > 0 {
		idx, im := buildIndex(idxEntries(b.Index))
		if err := base.SetIndex(idx); err != nil {
			return nil, err
		}
		m.index = im
	}
	if len(b.Shallow) > 0 {
		hs, sm := shallowOf(b.Shallow)
		if err := base.SetShallow(hs); err != nil {
			return nil, err
		}
		m.shallow = sm
	}
	c, cm := cfgOf(b.Cfg)
	if err := base.SetConfig(c); err != nil {
		return nil, err
	}
	m.cfg = cm
	if rl, ok := base.(storer.ReflogStorer); ok {
		for _, ls := range b.Reflog {
			n := refNames[mod(ls.N, len(refNames))]
			e, em := logEntry(ls.K)
			if err := rl.AppendReflog(plumbing.ReferenceName(n), e); err != nil {
				return nil, err
			}
			m.reflog[n] = append(m.reflog[n], em)
		}
	}
	return m, nil
}

func pathCat(p string) string {
	p = strings.TrimPrefix(p, "/g/")
	switch {
	case p == "HEAD":
		return "HEAD"
	case strings.HasPrefix(p, "packed-refs"):
		return "packed-refs"
	case p == "index":
		return "index"
	case p == "config":
		return "config"
	case p == "shallow":
		return "shallow"
	case strings.HasPrefix(p, "refs/"):
		return "loose-ref"
	case strings.HasPrefix(p, "logs/"):
		return "reflog"
	case strings.HasPrefix(p, "objects/"):
		return "object"
	}
	return "other"
}

func stateDigest(s *snapshot) string {
	var l []string
	for _, n := range refNames {
		l = append(l, n+"="+s.ref[n])
	}
	for i := 0; i < nObjPool; i++ {
		l = append(l, s.obj[i])
	}
	l = append(l, "index")
	l = append(l, s.index...)
	l = append(l, "shallow")
	l = append(l, s.shallow...)
	l = append(l, s.cfg)
	for _, n := range refNames {
		l = append(l, "log "+n)
		l = append(l, s.reflog[n]...)
	}
	return core.HashStrings(l)
}

func execPlan(t *testing.T, pa any) (out core.Outcome) {
	hooks.Deterministic(true)
	p := pa.(*Plan)
	r := &run{p: p, out: &out, seen: map[string]bool{}, pendingRef: map[string]bool{}, deletedRef: map[string]bool{},
		pendingObj: map[int]bool{}, logAppended: map[string]bool{}, logDeleted: map[string]bool{}}
	defer func() {
		out.Trace = r.trace
		out.LogHash = core.HashStrings(r.trace)
		out.NonTrivial = r.nontrivial
	}()
	ops := p.Ops
	if len(ops) > maxOps {
		ops = ops[:maxOps]
	}
	var fsBase *filesystem.Storage
	if p.FS {
		r.disk = simfs.NewDisk()
		fsBase = filesystem.NewStorage(r.disk.FS("/g", "t"), cache.NewObjectLRUDefault())
		defer fsBase.Close()
		if err := fsBase.Init(); err != nil {
			out.Inconclusive = "setup-failed"
			return out
		}
		r.base = fsBase
	} else {
		r.base = memory.NewStorage()
	}
	bm, err := populate(r.base, &p.Base, fsBase)
	if err != nil {
		out.Inconclusive = "setup-failed"
		out.Message = err.Error()
		return out
	}
	r.baseM, r.viewM = bm, bm.clone()
	if ds := diffSnap(snap(r.base), r.baseM, r.hasReflog(r.base)); len(ds) > 0 {
		// the base does not even hold what was put in: not this property
		out.Inconclusive = "setup-base-differs:" + ds[0].comp
		out.Message = ds[0].msg
		return out
	}
	r.tx = transactional.NewStorage(r.base, &detStorage{memory.NewStorage()})
	r.logf("base fs=%v pack=%v refs=%d objs=%d index=%d shallow=%d reflogs=%d fault=%v", p.FS, p.Base.Pack, len(bm.refs), len(bm.objs), len(bm.index), len(bm.shallow), len(bm.reflog), r.faultMode())
	r.checkView("opening the transaction")
	for i, op := range ops {
		if out.Signature != "" {
			break
		}
		if r.disk != nil {
			r.disk.Advance(time.Second)
		}
		r.step(i, op)
		out.Steps++
		desc := fmt.Sprintf("operation %d (%s)", i, op.K)
		r.checkView(desc)
		r.checkBase(desc)
	}
	if out.Signature != "" {
		return out
	}
	r.commit()
	return out
}

// commit runs Commit (with the planned fault, if any) and judges the base.
func (r *run) commit() {
	out := r.out
	if r.disk != nil {
		r.disk.Advance(time.Second)
	}
	fired, faultCls := false, "none"
	if r.faultMode() {
		f := *r.p.Fault
		if f.Nth < 1 {
			f.Nth = 1
		}
		switch f.Class {
		case simfs.OpWrite, simfs.OpCreate, simfs.OpRename, simfs.OpRemove:
		default:
			f.Class = simfs.OpWrite
		}
		switch f.Errno {
		case "EIO", "ENOSPC", "EACCES":
		default:
			f.Errno = "EIO"
		}
		r.disk.ResetCounters()
		r.disk.Record = true
		r.disk.SetFaults([]simfs.Fault{f})
	}
	err := r.tx.Commit()
	if r.faultMode() {
		r.disk.SetFaults(nil)
		for _, op := range r.disk.Log {
			if op.Injected {
				fired = true
				faultCls = string(op.Class) + ":" + pathCat(op.Path)
			}
		}
		r.disk.Record = false
		r.disk.Log = nil
		if fired {
			out.Probe("commit-fault-fired")
			out.Faults = map[string]int{faultCls: 1}
		} else {
			out.Probe("commit-fault-not-reached")
		}
	}
	r.logf("commit -> %s fault=%s", errKind(err), faultCls)
	if r.disk != nil {
		r.disk.Advance(time.Second)
	}
	// what the base shows now: the instance the transaction wrote through and,
	// on disk, a brand-new Storage over the same image
	views := []struct {
		who string
		st  storage.Storer
	}{{"base storage", r.base}}
	if r.p.FS {
		fresh := filesystem.NewStorage(r.disk.FS("/g", "verify"), cache.NewObjectLRUDefault())
		defer fresh.Close()
		views = append(views, struct {
			who string
			st  storage.Storer
		}{"a newly opened Storage over the base's disk", fresh})
	}
	var last *snapshot
	if !fired {
		if err != nil {
			r.diverge("commit|unexpected-error|-", "Commit() without any injected fault: %v", err)
		}
		for _, vw := range views {
			s := snap(vw.st)
			last = s
			for _, d := range diffSnap(s, r.viewM, r.hasReflog(vw.st)) {
				r.diverge(fmt.Sprintf("commit|base-differs:%s|%s", d.comp, r.compClass(d)), "after Commit() = %v, %s: %s", err, vw.who, d.msg)
			}
		}
		out.StateHash = stateDigest(last)
		return
	}
	// a fault fired during Commit
	for _, vw := range views {
		s := snap(vw.st)
		last = s
		if err == nil {
			ds := diffSnap(s, r.viewM, r.hasReflog(vw.st))
			if len(ds) == 0 {
				out.Probe("commit-fault-harmless")
				continue
			}
			d := ds[0]
			r.diverge(fmt.Sprintf("commit-fault|nil-error-base-differs:%s|%s", d.comp, faultCls), "Commit() returned nil although an injected %s fault fired, and %s does not equal the view: %s", faultCls, vw.who, d.msg)
			continue
		}
		r.oldOrNew(s, vw.who, faultCls, err)
	}
	out.StateHash = stateDigest(last)
}

// oldOrNew: after a failed Commit every key of the base holds its pre-Commit
// value or its view value, and everything is readable.
func (r *run) oldOrNew(s *snapshot, who, faultCls string, cerr error) {
	b, v := r.baseM, r.viewM
	bad := func(comp, kind, format string, args ...any) {
		r.diverge(fmt.Sprintf("commit-fault|%s:%s|%s", comp, kind, faultCls), "after Commit() failed with %q (injected %s), %s: %s", cerr, faultCls, who, fmt.Sprintf(format, args...))
	}
	val := func(m map[string]string, n string) string {
		if x, ok := m[n]; ok {
			return x
		}
		return absent
	}
	if s.listErr != "" {
		bad("refs", "unlistable", "IterReferences: %s", s.listErr)
	}
	for _, n := range refNames {
		got, o, w := s.ref[n], val(b.refs, n), val(v.refs, n)
		switch {
		case strings.HasPrefix(got, "!"):
			bad("refs", "unreadable", "Reference(%s): %s", n, got[1:])
		case got != o && got != w:
			bad("refs", "neither-old-nor-new", "Reference(%s) = %s, before Commit %s, view %s", n, got, o, w)
		case s.listErr == "" && (len(s.list[n]) > 1 || (len(s.list[n]) == 1) != (got != absent) || (len(s.list[n]) == 1 && s.list[n][0] != got)):
			bad("refs", "listing-inconsistent", "IterReferences lists %s as %v but Reference() = %s", n, s.list[n], got)
		}
	}
	for i := 0; i < nObjPool; i++ {
		got := s.obj[i]
		switch {
		case strings.HasPrefix(got, "!") || strings.HasPrefix(got, "bad-"):
			bad("objs", "garbage", "object #%d reads as %s", i, got)
		case got == absent && b.objs[i]:
			bad("objs", "lost", "object #%d was in the base before Commit and is gone", i)
		case got == "ok" && !v.objs[i]:
			bad("objs", "phantom", "object #%d appeared", i)
		}
	}
	if s.iterErr != "" {
		bad("objs", "unlistable", "IterEncodedObjects: %s", s.iterErr)
	}
	switch {
	case s.indexErr != "":
		bad("index", "unreadable", "Index(): %s", s.indexErr)
	case !sameStrings(s.index, b.index) && !sameStrings(s.index, v.index):
		bad("index", "neither-old-nor-new", "Index() = %v, before Commit %v, view %v", s.index, b.index, v.index)
	}
	switch {
	case s.shalErr != "":
		bad("shallow", "unreadable", "Shallow(): %s", s.shalErr)
	case !sameStrings(s.shallow, b.shallow) && !sameStrings(s.shallow, v.shallow):
		bad("shallow", "neither-old-nor-new", "Shallow() = %v, before Commit %v, view %v", s.shallow, b.shallow, v.shallow)
	}
	switch {
	case s.cfgErr != "":
		bad("config", "unreadable", "Config(): %s", s.cfgErr)
	case s.cfg != b.cfg.digest() && s.cfg != v.cfg.digest():
		bad("config", "neither-old-nor-new", "Config() = {%s}, before Commit {%s}, view {%s}", s.cfg, b.cfg.digest(), v.cfg.digest())
	}
	for _, n := range refNames {
		got := s.reflog[n]
		if s.logErr[n] != "" {
			bad("reflog", "unreadable", "Reflog(%s): %s", n, s.logErr[n])
			continue
		}
		// a log is appended entry by entry: old, or (old unless deleted) plus a
		// prefix of the appended entries
		ok := sameStrings(got, b.reflog[n])
		start := b.reflog[n]
		if r.logDeleted[n] {
			start = nil
		}
		full := v.reflog[n]
		if len(full) >= len(start) && sameStrings(full[:len(start)], start) {
			for k := len(start); k <= len(full); k++ {
				if sameStrings(got, full[:k]) {
					ok = true
				}
			}
		}
		if !ok {
			bad("reflog", "neither-old-nor-new", "Reflog(%s) = %v, before Commit %v, view %v", n, got, b.reflog[n], full)
		}
	}
}

func TestCheck(t *testing.T) {
	core.Main(t, core.Check{
		ID:    "C19",
		Level: "exploration",
		Rule: "plan = base kind (memory | filesystem on a simulated disk, optionally with packed refs) x base content put in through the base's own API " +
			"(objects, hash and symbolic references, index, shallow list, config, reflogs) x a history of <= 25 operations through transactional.NewStorage(base, memory) " +
			"drawn from 23 kinds over 7 reference names and 10 objects (set/get/has/size/iterate objects incl. wrong-type and never-stored hashes, Set/CheckAndSet(old nil|current|stale|base value)/Remove/get/list references, " +
			"CountLooseRefs, PackRefs, Set/get index, shallow, config, read-modify-write of index and config, append/delete/read reflog) then Commit; " +
			"second configuration: one injected write/create/rename/remove fault during Commit on the filesystem base; " +
			"non-trivial = the history overwrites or deletes something that exists in the base; distinct = distinct plan",
		Assumptions: []string{
			"single task, no concurrency: the property is about the sequential view",
			"the temporal storage is memory.Storage with its two map-ordered listings sorted (any order is a legal map order) so that Commit's write order is a function of the plan",
			"fault configuration: at most one pending reference deletion and one reflog name per Go map that Commit walks, because that walk order cannot be fixed from outside",
			"CheckAndSetReference on a never-existing name is not judged; on a name hidden by a pending deletion it must answer what the storage itself answers for a never-existing name",
			"CountLooseRefs and duplicate objects in IterEncodedObjects are counted as probes, not judged",
		},
		Real:    []string{"storage/transactional (all of it)", "storage/memory", "storage/filesystem + dotgit (base)", "plumbing/format/index, config, reflog encoders"},
		Stub:    []string{"disk (simfs) with one fault ordinal during Commit"},
		Runs:    map[string]int{"quick": 40000, "thorough": 400000},
		NewPlan: func() any { return &Plan{} },
		Gen:     genPlan,
		Exec:    execPlan,
		RequiredProbes: []string{"overwrite-base-ref", "delete-base-ref", "delete-pending-ref", "delete-missing-ref", "cas-on-deleted", "set-after-delete",
			"object-in-both", "wrong-type-request", "set-shallow-empty", "overwrite-base-shallow", "overwrite-base-index", "index-rmw", "config-rmw",
			"reflog-append", "delete-base-reflog", "commit-fault-fired", "commit-fault-not-reached"},
	})
}
