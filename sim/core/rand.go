// Package core holds what every check shares: the seeded PRNG, the plan
// shrinker, the worker loop and the result/evidence records.
package core

// Rand is a splitmix64 generator. One VERIF_SEED value derives every choice.
type Rand struct{ s uint64 }

func NewRand(seed uint64) *Rand { return &Rand{s: seed} }

func (r *Rand) Uint64() uint64 {
	r.s += 0x9e3779b97f4a7c15
	z := r.s
	z = (z ^ (z >> 30)) * 0xbf58476d1ce4e5b9
	z = (z ^ (z >> 27)) * 0x94d049bb133111eb
	return z ^ (z >> 31)
}

// Mix derives an independent sub-seed.
func Mix(seed uint64, k uint64) uint64 {
	r := Rand{s: seed ^ (k+1)*0xd1342543de82ef95}
	r.Uint64()
	return r.Uint64()
}

// Intn returns a value in [0,n). n<=0 yields 0.
func (r *Rand) Intn(n int) int {
	if n <= 0 {
		return 0
	}
	return int(r.Uint64() % uint64(n))
}

// Range returns a value in [lo,hi].
func (r *Rand) Range(lo, hi int) int {
	if hi <= lo {
		return lo
	}
	return lo + r.Intn(hi-lo+1)
}

func (r *Rand) Bool() bool { return r.Uint64()&1 == 1 }

// Chance returns true with probability num/den.
func (r *Rand) Chance(num, den int) bool { return r.Intn(den) < num }

// Pick returns one of the strings.
func (r *Rand) Pick(xs ...string) string { return xs[r.Intn(len(xs))] }

// Bytes returns n pseudo-random bytes.
func (r *Rand) Bytes(n int) []byte {
	b := make([]byte, n)
	for i := range b {
		b[i] = byte(r.Uint64())
	}
	return b
}

// Sub returns an independent generator.
func (r *Rand) Sub() *Rand { return NewRand(r.Uint64()) }

// Pick2 returns one of the ints.
func (r *Rand) Pick2(xs ...int) int { return xs[r.Intn(len(xs))] }

// HashStrings returns a short stable hash of a list of strings.
func HashStrings(ss []string) string {
	var h uint64 = 1469598103934665603
	for _, s := range ss {
		for i := 0; i < len(s); i++ {
			h ^= uint64(s[i])
			h *= 1099511628211
		}
		h ^= 0xff
		h *= 1099511628211
	}
	const hexd = "0123456789abcdef"
	b := make([]byte, 16)
	for i := 15; i >= 0; i-- {
		b[i] = hexd[h&15]
		h >>= 4
	}
	return string(b)
}
