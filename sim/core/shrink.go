package core

import (
	"bytes"
	"encoding/json"
	"sort"
	"time"
)

// Shrink minimises a JSON plan while fails(candidate) keeps returning true
// (same violation signature). It works on the generic JSON tree: arrays lose
// chunks and single elements, numbers move towards zero, booleans become
// false, strings are left alone. Plans must therefore be interpreted totally
// (indices modulo length, sizes clamped) by Exec.
func Shrink(plan []byte, first Outcome, fails func([]byte) (bool, Outcome), maxExecs int, budget time.Duration) ([]byte, Outcome) {
	start := time.Now()
	execs := 0
	best := plan
	bestO := first
	try := func(tree any) bool {
		if execs >= maxExecs || time.Since(start) > budget {
			return false
		}
		js, err := json.Marshal(tree)
		if err != nil || bytes.Equal(js, best) {
			return false
		}
		execs++
		ok, o := fails(js)
		if ok {
			best, bestO = js, o
		}
		return ok
	}
	for pass := 0; pass < 8; pass++ {
		progress := false
		var tree any
		dec := json.NewDecoder(bytes.NewReader(best))
		dec.UseNumber()
		if err := dec.Decode(&tree); err != nil {
			break
		}
		// enumerate mutation sites lazily: each site is a path into the tree
		paths := collectPaths(tree, nil)
		for _, p := range paths {
			if execs >= maxExecs || time.Since(start) > budget {
				break
			}
			node := getAt(tree, p)
			switch v := node.(type) {
			case []any:
				// remove halves, then single elements from the end
				n := len(v)
				if n == 0 {
					continue
				}
				removed := false
				for chunk := n; chunk >= 1 && !removed; chunk /= 2 {
					for startI := n - chunk; startI >= 0; startI -= chunk {
						cand := append(append([]any{}, v[:startI]...), v[startI+chunk:]...)
						setAt(&tree, p, cand)
						if try(tree) {
							removed = true
							progress = true
							break
						}
						setAt(&tree, p, v)
					}
					if chunk == 1 {
						break
					}
				}
				if removed {
					// tree changed shape: restart pass
					goto nextPass
				}
			case json.Number:
				i, err := v.Int64()
				if err != nil || i == 0 {
					continue
				}
				for _, c := range []int64{0, i / 2, i - 1} {
					if c == i || c < 0 && i > 0 {
						continue
					}
					setAt(&tree, p, json.Number(itoa(c)))
					if try(tree) {
						progress = true
						break
					}
					setAt(&tree, p, v)
				}
			case bool:
				if v {
					setAt(&tree, p, false)
					if try(tree) {
						progress = true
					} else {
						setAt(&tree, p, v)
					}
				}
			}
		}
	nextPass:
		if !progress {
			break
		}
	}
	return best, bestO
}

func itoa(i int64) string {
	b, _ := json.Marshal(i)
	return string(b)
}

type pathElem struct {
	key string
	idx int
	isK bool
}

func collectPaths(node any, prefix []pathElem) [][]pathElem {
	var out [][]pathElem
	cp := func() []pathElem { return append([]pathElem{}, prefix...) }
	switch v := node.(type) {
	case map[string]any:
		keys := make([]string, 0, len(v))
		for k := range v {
			keys = append(keys, k)
		}
		sort.Strings(keys)
		for _, k := range keys {
			out = append(out, collectPaths(v[k], append(cp(), pathElem{key: k, isK: true}))...)
		}
	case []any:
		out = append(out, cp())
		for i := range v {
			out = append(out, collectPaths(v[i], append(cp(), pathElem{idx: i}))...)
		}
	case json.Number, bool:
		out = append(out, cp())
	}
	return out
}

func getAt(tree any, p []pathElem) any {
	cur := tree
	for _, e := range p {
		if e.isK {
			m, ok := cur.(map[string]any)
			if !ok {
				return nil
			}
			cur = m[e.key]
		} else {
			a, ok := cur.([]any)
			if !ok || e.idx >= len(a) {
				return nil
			}
			cur = a[e.idx]
		}
	}
	return cur
}

func setAt(tree *any, p []pathElem, val any) {
	if len(p) == 0 {
		*tree = val
		return
	}
	cur := *tree
	for _, e := range p[:len(p)-1] {
		if e.isK {
			cur = cur.(map[string]any)[e.key]
		} else {
			cur = cur.([]any)[e.idx]
		}
	}
	last := p[len(p)-1]
	if last.isK {
		cur.(map[string]any)[last.key] = val
	} else {
		cur.([]any)[last.idx] = val
	}
}
