package core

import (
	"crypto/sha256"
	"encoding/hex"
	"encoding/json"
	"fmt"
	"os"
	"path/filepath"
	"regexp"
	"sort"
	"strconv"
	"strings"
	"testing"
	"time"
)

// Outcome is what one simulated run reports.
type Outcome struct {
	Signature    string         `json:"signature,omitempty"` // "" = property held
	Message      string         `json:"message,omitempty"`
	Inconclusive string         `json:"inconclusive,omitempty"`
	LogHash      string         `json:"log_hash,omitempty"`   // hash of the full event log (replay determinism)
	SchedHash    string         `json:"sched_hash,omitempty"` // hash of the grant sequence (distinct interleavings)
	StateHash    string         `json:"state_hash,omitempty"` // digest of the end state (distinct states)
	Trace        []string       `json:"trace,omitempty"`
	Probes       map[string]int `json:"probes,omitempty"`
	Faults       map[string]int `json:"faults,omitempty"`
	Steps        int            `json:"steps,omitempty"`
	SimNS        int64          `json:"sim_ns,omitempty"`
	NonTrivial   bool           `json:"nontrivial,omitempty"`
}

func (o *Outcome) Probe(name string) {
	if o.Probes == nil {
		o.Probes = map[string]int{}
	}
	o.Probes[name]++
}

func (o *Outcome) ProbeN(name string, n int) {
	if n == 0 {
		return
	}
	if o.Probes == nil {
		o.Probes = map[string]int{}
	}
	o.Probes[name] += n
}

// Fail marks the outcome as a violation (first failure wins).
func (o *Outcome) Fail(sig, format string, args ...any) {
	if o.Signature != "" {
		return
	}
	o.Signature = sig
	o.Message = fmt.Sprintf(format, args...)
}

// Check describes one property's simulation.
type Check struct {
	ID          string
	Level       string // exploration | fault_enumeration
	Rule        string
	Assumptions []string
	Real        []string
	Stub        []string
	Runs        map[string]int // total generated plans per tier
	// NewPlan returns a pointer to a zero plan (for JSON decoding).
	NewPlan func() any
	// Gen draws a plan from the generator.
	Gen func(r *Rand, tier string) any
	// Expand optionally turns a generated plan into the runs enumerated from
	// it (crash points, fault ordinals). nil = the plan itself.
	Expand func(t *testing.T, plan any, tier string) []any
	// Exec executes one plan. It must be total on any decodable plan.
	Exec func(t *testing.T, plan any) Outcome
	// RequiredProbes lists reach probes that must be non-zero in a quick run
	// (reported in evidence; their absence does not fail the check).
	RequiredProbes []string
}

type violationRec struct {
	Signature string `json:"signature"`
	Message   string `json:"message"`
	SubSeed   uint64 `json:"subseed"`
	Replay    string `json:"replay"`
	Count     int    `json:"count"`
}

// WorkerResult is written by each worker process and merged by bin/check.
type WorkerResult struct {
	ID            string         `json:"id"`
	Tier          string         `json:"tier"`
	Seed          uint64         `json:"seed"`
	Worker        string         `json:"worker"`
	Plans         int            `json:"plans"`
	Evaluations   int            `json:"evaluations"`
	NonTrivial    []string       `json:"nontrivial_hashes"`
	SchedHashes   []string       `json:"sched_hashes"`
	StateHashes   []string       `json:"state_hashes"`
	Probes        map[string]int `json:"probes"`
	Faults        map[string]int `json:"faults"`
	Steps         int64          `json:"steps"`
	SimNS         int64          `json:"sim_ns"`
	Inconclusive  map[string]int `json:"inconclusive"`
	Violations    []violationRec `json:"violations"`
	Samples       []any          `json:"samples"`
	WallS         float64        `json:"wall_s"`
	StoppedEarly  bool           `json:"stopped_early"`
	Level         string         `json:"level"`
	Rule          string         `json:"rule"`
	Assumptions   []string       `json:"assumptions"`
	Real          []string       `json:"real"`
	Stub          []string       `json:"stub"`
	ReqProbes     []string       `json:"required_probes"`
	ShrinkExecs   int            `json:"shrink_execs"`
	FirstSubSeed  uint64         `json:"first_subseed"`
	LastSubSeed   uint64         `json:"last_subseed"`
}

// Replay is the on-disk replay file.
type Replay struct {
	Property  string          `json:"property"`
	Seed      uint64          `json:"seed"`
	SubSeed   uint64          `json:"subseed"`
	Signature string          `json:"signature"`
	Message   string          `json:"message"`
	LogHash   string          `json:"log_hash"`
	Plan      json.RawMessage `json:"plan"`
	Trace     []string        `json:"trace"`
	Minimised bool            `json:"minimised"`
	OrigSize  int             `json:"orig_plan_bytes"`
}

func envInt(name string, def int64) int64 {
	if v := os.Getenv(name); v != "" {
		if n, err := strconv.ParseInt(v, 10, 64); err == nil {
			return n
		}
	}
	return def
}

var slugRe = regexp.MustCompile(`[^A-Za-z0-9]+`)

func slug(s string) string {
	full := s
	s = slugRe.ReplaceAllString(s, "-")
	if len(s) > 60 {
		// keep the names apart that only differ beyond the cut
		s = s[:60] + "-" + hashOf([]byte(full))[:6]
	}
	return strings.Trim(s, "-")
}

func hashOf(b []byte) string {
	h := sha256.Sum256(b)
	return hex.EncodeToString(h[:8])
}

// Main is the entry point of every check's test binary.
func Main(t *testing.T, c Check) {
	if rp := os.Getenv("VERIF_REPLAY"); rp != "" {
		replayMain(t, c, rp)
		return
	}
	tier := os.Getenv("VERIF_TIER")
	if tier == "" {
		tier = "quick"
	}
	seed := uint64(envInt("VERIF_SEED", 1))
	wi, wn := 0, 1
	if w := os.Getenv("VERIF_WORKER"); w != "" {
		fmt.Sscanf(w, "%d/%d", &wi, &wn)
	}
	total := c.Runs[tier]
	if total == 0 {
		total = c.Runs["quick"]
	}
	if v := envInt("VERIF_RUNS", 0); v > 0 {
		total = int(v)
	}
	deadline := time.Duration(envInt("VERIF_DEADLINE_S", 3600)) * time.Second
	replayDir := os.Getenv("VERIF_REPLAY_DIR")
	if replayDir == "" {
		replayDir = "/verif/replays"
	}
	start := time.Now()
	res := WorkerResult{ID: c.ID, Tier: tier, Seed: seed, Worker: fmt.Sprintf("%d/%d", wi, wn),
		Probes: map[string]int{}, Faults: map[string]int{}, Inconclusive: map[string]int{},
		Level: c.Level, Rule: c.Rule, Assumptions: c.Assumptions, Real: c.Real, Stub: c.Stub, ReqProbes: c.RequiredProbes}
	nontriv := map[string]struct{}{}
	scheds := map[string]struct{}{}
	states := map[string]struct{}{}
	seenSig := map[string]*violationRec{}
	fmt.Printf("VERIF_SEED=%d tier=%s worker=%d/%d plans=%d\n", seed, tier, wi, wn, total)
	var hashLog *os.File
	if hl := os.Getenv("VERIF_HASHLOG"); hl != "" {
		hashLog, _ = os.Create(hl)
		defer hashLog.Close()
	}

	for i := wi; i < total; i += wn {
		if time.Since(start) > deadline {
			res.StoppedEarly = true
			break
		}
		sub := Mix(seed, uint64(i))
		if res.Plans == 0 {
			res.FirstSubSeed = sub
		}
		res.LastSubSeed = sub
		plan := c.Gen(NewRand(sub), tier)
		res.Plans++
		runs := []any{plan}
		if c.Expand != nil {
			runs = c.Expand(t, plan, tier)
		}
		for _, p := range runs {
			o := c.Exec(t, p)
			res.Evaluations++
			if hashLog != nil {
				fmt.Fprintf(hashLog, "%d %d %s %s %s %s\n", sub, res.Evaluations, o.LogHash, o.StateHash, o.Signature, o.Inconclusive)
			}
			res.Steps += int64(o.Steps)
			res.SimNS += o.SimNS
			for k, v := range o.Probes {
				res.Probes[k] += v
			}
			for k, v := range o.Faults {
				res.Faults[k] += v
			}
			if o.Inconclusive != "" {
				res.Inconclusive[o.Inconclusive]++
			}
			if o.NonTrivial {
				js, _ := json.Marshal(p)
				nontriv[hashOf(js)] = struct{}{}
			}
			if o.SchedHash != "" {
				scheds[o.SchedHash] = struct{}{}
			}
			if o.StateHash != "" {
				states[o.StateHash] = struct{}{}
			}
			if len(res.Samples) < 2 && (o.NonTrivial || i >= total-wn) {
				tr := o.Trace
				if len(tr) > 30 {
					tr = tr[:30]
				}
				res.Samples = append(res.Samples, map[string]any{"subseed": sub, "plan": p, "trace_head": tr, "outcome": o.Signature})
			}
			if o.Signature != "" {
				if v := seenSig[o.Signature]; v != nil {
					v.Count++
					continue
				}
				rec := &violationRec{Signature: o.Signature, Message: o.Message, SubSeed: sub, Count: 1}
				seenSig[o.Signature] = rec
				rec.Replay = minimiseAndSave(t, c, p, o, seed, sub, replayDir, &res)
				fmt.Printf("worker %d: violation %s subseed=%d: %s\n", wi, o.Signature, sub, o.Message)
			}
		}
	}
	for k := range nontriv {
		res.NonTrivial = append(res.NonTrivial, k)
	}
	for k := range scheds {
		res.SchedHashes = append(res.SchedHashes, k)
	}
	for k := range states {
		res.StateHashes = append(res.StateHashes, k)
	}
	sort.Strings(res.NonTrivial)
	sort.Strings(res.SchedHashes)
	sort.Strings(res.StateHashes)
	var sigs []string
	for s := range seenSig {
		sigs = append(sigs, s)
	}
	sort.Strings(sigs)
	for _, s := range sigs {
		res.Violations = append(res.Violations, *seenSig[s])
	}
	res.WallS = time.Since(start).Seconds()
	if out := os.Getenv("VERIF_OUT"); out != "" {
		js, _ := json.Marshal(res)
		if err := os.WriteFile(out, js, 0o644); err != nil {
			t.Fatalf("write result: %v", err)
		}
	} else {
		js, _ := json.MarshalIndent(struct {
			Plans, Evaluations, NonTrivial, Scheds, States int
			Probes, Faults, Inconclusive           map[string]int
			Violations                             []violationRec
			WallS                                  float64
		}{res.Plans, res.Evaluations, len(res.NonTrivial), len(res.SchedHashes), len(res.StateHashes), res.Probes, res.Faults, res.Inconclusive, res.Violations, res.WallS}, "", " ")
		fmt.Println(string(js))
	}
}

func minimiseAndSave(t *testing.T, c Check, p any, o Outcome, seed, sub uint64, dir string, res *WorkerResult) string {
	js, _ := json.Marshal(p)
	orig := len(js)
	execs := 0
	fails := func(cand []byte) (bool, Outcome) {
		np := c.NewPlan()
		if err := json.Unmarshal(cand, np); err != nil {
			return false, Outcome{}
		}
		execs++
		oo := c.Exec(t, np)
		return oo.Signature == o.Signature, oo
	}
	best, bestO := js, o
	if os.Getenv("VERIF_NOSHRINK") == "" {
		maxExecs := int(envInt("VERIF_SHRINK_EXECS", 400))
		best, bestO = Shrink(js, o, fails, maxExecs, 30*time.Second)
	}
	res.ShrinkExecs += execs
	rp := Replay{Property: c.ID, Seed: seed, SubSeed: sub, Signature: bestO.Signature, Message: bestO.Message,
		LogHash: bestO.LogHash, Plan: best, Trace: bestO.Trace, Minimised: len(best) < orig, OrigSize: orig}
	if len(rp.Trace) > 400 {
		rp.Trace = rp.Trace[len(rp.Trace)-400:]
	}
	_ = os.MkdirAll(dir, 0o755)
	name := filepath.Join(dir, fmt.Sprintf("%s-%s-%d.json", c.ID, slug(o.Signature), sub))
	out, _ := json.MarshalIndent(rp, "", " ")
	if err := os.WriteFile(name, out, 0o644); err != nil {
		fmt.Printf("cannot write replay: %v\n", err)
	}
	return name
}

// replayMain executes a replay file and reports whether it reproduces.
// Exit status is conveyed through the printed line; the test fails (exit 1)
// only when the replay does NOT reproduce.
func replayMain(t *testing.T, c Check, file string) {
	b, err := os.ReadFile(file)
	if err != nil {
		t.Fatalf("replay: %v", err)
	}
	var rp Replay
	if err := json.Unmarshal(b, &rp); err != nil {
		t.Fatalf("replay: %v", err)
	}
	for round := 0; round < 2; round++ {
		p := c.NewPlan()
		if err := json.Unmarshal(rp.Plan, p); err != nil {
			t.Fatalf("replay plan: %v", err)
		}
		o := c.Exec(t, p)
		if o.Signature != rp.Signature {
			fmt.Printf("REPLAY-DIVERGED property=%s want=%s/%s got=%s/%s\n", c.ID, rp.Signature, rp.LogHash, o.Signature, o.LogHash)
			t.Fatalf("replay diverged")
		}
		if o.LogHash != rp.LogHash {
			// The same violation, along an event log that differs in some detail: the code under test does
			// something between two seams that is not a function of the plan (state shared across runs, map
			// order). The violation is real and is reported; the difference is reported with it.
			fmt.Printf("REPLAY-LOGHASH-DIFFERS property=%s signature=%s want=%s got=%s\n", c.ID, o.Signature, rp.LogHash, o.LogHash)
		}
		if round == 0 {
			fmt.Printf("REPLAY-REPRODUCED property=%s signature=%s log_hash=%s\n%s\n", c.ID, o.Signature, o.LogHash, o.Message)
			if os.Getenv("VERIF_REPLAY_TRACE") != "" {
				for _, l := range o.Trace {
					fmt.Println("  ", l)
				}
			}
		}
	}
}
