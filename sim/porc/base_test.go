//go:build verif

package porc

import "testing"

func TestBases(t *testing.T) {
	for s := uint64(0); s < 48; s++ {
		for _, rp := range []bool{false, true} {
			if b := GetBase(s, rp, false); b.Err != nil {
				t.Errorf("seed %d repack %v: %v", s, rp, b.Err)
			}
		}
	}
}
