//go:build verif

// Package porc is the shared porcelain engine: a generated repository with a
// worktree on the simulated disk, a small step language over go-git's
// porcelain (add, rm, mv, commit, reset, checkout, restore, merge, clean,
// status) plus "user" actions (edit/delete a worktree file, external rewrite
// of the index, clock ticks), and observation helpers that read the resulting
// image directly from the disk (not through go-git's status).
package porc

import (
	"bytes"
	"crypto/sha1"
	"fmt"
	iofs "io/fs"
	"sort"
	"strings"
	"time"

	git "github.com/go-git/go-git/v6"
	"github.com/go-git/go-git/v6/plumbing"
	"github.com/go-git/go-git/v6/plumbing/format/index"
	"github.com/go-git/go-git/v6/storage/filesystem"
	"github.com/go-git/go-git/v6/verifsim/core"
	"github.com/go-git/go-git/v6/verifsim/gen"
	"github.com/go-git/go-git/v6/verifsim/simfs"
)

// Step is one action of a history. Its meaning is a total function of
// (Kind, A, B, F) and the world.
type Step struct {
	Kind string `json:"kind"`
	A    int    `json:"a"`
	B    int    `json:"b"`
	F    bool   `json:"f"`
}

// Paths is the path universe steps draw from (tracked paths of the generator
// plus names that start untracked).
var Paths = []string{"a.txt", "b.txt", "dir/c.txt", "dir/sub/d.txt", "e.sh", "z/y/x.txt", "dir/e.txt", "new1.txt", "dir/new2.txt", "un/tracked.txt"}

// Branches steps can name.
var Branches = []string{"refs/heads/master", "refs/heads/old", "refs/heads/side", "refs/heads/nb0", "refs/heads/nb1", "refs/heads/missing"}

// Kinds lists every step kind.
var Kinds = []string{"edit", "rmfile", "add", "addall", "rm", "mv", "commit", "reset", "checkout", "status", "extindex", "merge", "restore", "clean", "tick"}

// Base is a cached generated repository image.
type Base struct {
	Disk  *simfs.Disk
	Model *gen.Model
	Err   error
}

var baseCache = map[string]*Base{}

// GetBase builds (or returns the cached) repository for a seed/config.
func GetBase(seed uint64, repack, packRefs bool) *Base {
	key := fmt.Sprintf("%d/%v/%v", seed, repack, packRefs)
	if b, ok := baseCache[key]; ok {
		return b
	}
	if len(baseCache) > 400 {
		baseCache = map[string]*Base{}
	}
	d := simfs.NewDisk()
	env, err := gen.Build(core.NewRand(seed*7919+1), d, "/w", gen.Cfg{MinCommits: 3, MaxCommits: 7, Repack: repack, PackRefs: packRefs, Tags: true, Side: true, Symlinks: seed%4 == 0})
	b := &Base{Disk: d, Err: err}
	if err == nil {
		b.Model = env.Model
	}
	baseCache[key] = b
	return b
}

// World is one run's repository.
type World struct {
	Disk    *simfs.Disk
	Env     *gen.Env
	Model   *gen.Model
	Commits []gen.Commit // model commits + commits made during the history (tree unknown => nil)
	NCommit int
	Trace   []string
}

// Open clones the base image and opens it with fresh Storage values.
func Open(b *Base, opts filesystem.Options) (*World, error) {
	d := b.Disk.Clone()
	env, err := gen.Open(d, "/w", "op", opts)
	if err != nil {
		return nil, err
	}
	w := &World{Disk: d, Env: env, Model: b.Model, Commits: append([]gen.Commit{}, b.Model.Commits...)}
	return w, nil
}

func (w *World) logf(format string, args ...any) {
	if len(w.Trace) < 600 {
		w.Trace = append(w.Trace, fmt.Sprintf(format, args...))
	}
}

func mod(a, n int) int {
	if n <= 0 {
		return 0
	}
	a %= n
	if a < 0 {
		a += n
	}
	return a
}

// ErrKind classifies an error for event logs and signatures.
func ErrKind(err error) string {
	switch {
	case err == nil:
		return "ok"
	case simfs.IsInjected(err):
		return "injected"
	}
	s := err.Error()
	for _, known := range []string{"worktree contains unstaged changes", "already exists", "reference not found", "object not found", "entry not found",
		"clean working tree", "fast-forward", "branch", "invalid", "cannot", "unstaged", "no such file", "not found"} {
		if strings.Contains(s, known) {
			return strings.ReplaceAll(known, " ", "-")
		}
	}
	if len(s) > 40 {
		s = s[:40]
	}
	return s
}

// Do performs one step. user=true means the step was a user/harness action
// (not a go-git call); err is the go-git call's error.
func (w *World) Do(s Step) (err error, user bool) {
	repo := w.Env.Repo
	wt, werr := repo.Worktree()
	if werr != nil {
		return werr, false
	}
	path := Paths[mod(s.A, len(Paths))]
	commit := w.Commits[mod(s.B, len(w.Commits))]
	switch s.Kind {
	case "edit":
		w.Disk.Advance(time.Duration(mod(s.B, 3)) * w.Disk.Tick)
		mode := 0o644
		if path == "e.sh" {
			mode = 0o755
		}
		if k := w.Disk.Lookup("/w/" + path); k == "dir" || k == "link" {
			w.logf("edit %s skipped (%s)", path, k)
			return nil, true
		}
		werr := w.Disk.WriteFile("/w/"+path, []byte(fmt.Sprintf("edit %d %d\n", s.A, s.B)), iofs.FileMode(mode))
		w.logf("edit %s: %v", path, werr)
		return nil, true
	case "rmfile":
		if w.Disk.Lookup("/w/"+path) == "file" {
			w.Disk.RemoveAllDirect("/w/" + path)
		}
		w.logf("rmfile %s", path)
		return nil, true
	case "tick":
		w.Disk.Advance(time.Duration(1+mod(s.A, 3)) * w.Disk.Tick)
		w.logf("tick")
		return nil, true
	case "extindex":
		w.externalIndexRewrite(s)
		return nil, true
	case "add":
		_, err = wt.Add(path)
	case "addall":
		err = wt.AddWithOptions(&git.AddOptions{All: true})
	case "rm":
		_, err = wt.Remove(path)
	case "mv":
		_, err = wt.Move(path, Paths[mod(s.B, len(Paths))])
	case "commit":
		w.NCommit++
		var h plumbing.Hash
		h, err = wt.Commit(fmt.Sprintf("history commit %d", w.NCommit), &git.CommitOptions{Author: gen.Sig(200 + w.NCommit), Committer: gen.Sig(200 + w.NCommit), All: s.F})
		if err == nil {
			w.Commits = append(w.Commits, gen.Commit{Hash: h})
		}
	case "reset":
		mode := []git.ResetMode{git.SoftReset, git.MixedReset, git.HardReset, git.MergeReset, git.KeepReset}[mod(s.A, 5)]
		err = wt.Reset(&git.ResetOptions{Mode: mode, Commit: commit.Hash})
	case "checkout":
		o := &git.CheckoutOptions{Force: s.F}
		switch mod(s.A, 5) {
		case 0:
			o.Branch = plumbing.ReferenceName(Branches[mod(s.B, len(Branches))])
		case 1:
			o.Hash = commit.Hash
		case 2:
			o.Branch = plumbing.ReferenceName(Branches[3+mod(s.B, 2)])
			o.Create = true
			o.Hash = commit.Hash
		case 3:
			o.Branch = plumbing.ReferenceName(Branches[mod(s.B, 3)])
			o.Create = true // usually refused: exists
		case 4:
			o.Branch = plumbing.ReferenceName(Branches[mod(s.B, len(Branches))])
			o.Keep = !s.F
		}
		err = wt.Checkout(o)
	case "status":
		_, err = wt.Status()
	case "merge":
		ref, rerr := repo.Reference(plumbing.ReferenceName(Branches[mod(s.A, 3)]), true)
		if rerr != nil {
			err = rerr
			break
		}
		err = repo.Merge(*ref, git.MergeOptions{Strategy: git.FastForwardMerge})
	case "restore":
		o := &git.RestoreOptions{Files: []string{path}}
		switch mod(s.B, 4) {
		case 0:
			o.Staged = true
		case 1:
			o.Worktree = true
		case 2:
			o.Staged, o.Worktree = true, true
		case 3:
			o.Files = nil
		}
		err = wt.Restore(o)
	case "clean":
		err = wt.Clean(&git.CleanOptions{Dir: s.F})
	default:
		return nil, true
	}
	w.logf("%s a=%d b=%d f=%v: %s", s.Kind, s.A, s.B, s.F, ErrKind(err))
	return err, false
}

// externalIndexRewrite re-encodes a changed index straight onto the disk, as
// another git process would, changing its size or its mtime (or both).
func (w *World) externalIndexRewrite(s Step) {
	idx, ok := DecodeIndexOnDisk(w.Disk)
	if !ok || idx == nil {
		w.logf("extindex: no decodable index")
		return
	}
	switch mod(s.A, 3) {
	case 0: // drop an entry (size changes)
		if len(idx.Entries) > 1 {
			k := mod(s.B, len(idx.Entries))
			idx.Entries = append(idx.Entries[:k:k], idx.Entries[k+1:]...)
		}
	case 1: // change an entry's hash (same size; mtime must change)
		if len(idx.Entries) > 0 {
			e := *idx.Entries[mod(s.B, len(idx.Entries))]
			e.Hash = plumbing.NewHash(fmt.Sprintf("%040x", 0xabc000+s.B))
			idx.Entries[mod(s.B, len(idx.Entries))] = &e
		}
	case 2: // add an entry
		idx.Entries = append(idx.Entries, &index.Entry{Name: fmt.Sprintf("zz/ext%d.txt", mod(s.B, 5)), Hash: plumbing.NewHash(fmt.Sprintf("%040x", 0xdef000+s.B)), Mode: 0o100644, Size: 3})
		sort.Slice(idx.Entries, func(i, j int) bool { return idx.Entries[i].Name < idx.Entries[j].Name })
	}
	var buf bytes.Buffer
	if err := index.NewEncoder(&buf, sha1.New()).Encode(idx); err != nil {
		w.logf("extindex: encode: %v", err)
		return
	}
	// always move the clock so that a same-size rewrite has a new mtime
	w.Disk.Advance(w.Disk.Tick)
	if w.Disk.Tick < time.Millisecond {
		w.Disk.Advance(time.Millisecond)
	}
	_ = w.Disk.WriteFile("/w/.git/index", buf.Bytes(), 0o644)
	w.logf("extindex kind=%d entries=%d", mod(s.A, 3), len(idx.Entries))
}

// DecodeIndexOnDisk decodes /w/.git/index straight from the image with a
// fresh decoder. ok=false: the file exists but does not decode. A missing
// file yields (nil, true).
func DecodeIndexOnDisk(d *simfs.Disk) (*index.Index, bool) {
	b, exists := d.ReadFile("/w/.git/index")
	if !exists {
		return nil, true
	}
	idx := &index.Index{}
	if err := index.NewDecoder(bytes.NewReader(b), sha1.New()).Decode(idx); err != nil {
		return nil, false
	}
	return idx, true
}

// IndexString renders an index for comparison (entries field by field).
func IndexString(idx *index.Index) string {
	if idx == nil {
		return "<none>"
	}
	var b strings.Builder
	fmt.Fprintf(&b, "v%d\n", idx.Version)
	for _, e := range idx.Entries {
		fmt.Fprintf(&b, "%s %s %o stage=%d size=%d skip=%v ita=%v mtime=%d\n", e.Name, e.Hash, uint32(e.Mode), e.Stage, e.Size, e.SkipWorktree, e.IntentToAdd, e.ModifiedAt.UnixNano())
	}
	if idx.Cache != nil {
		fmt.Fprintf(&b, "cache-tree %d\n", len(idx.Cache.Entries))
	}
	if idx.ResolveUndo != nil {
		fmt.Fprintf(&b, "reuc %d\n", len(idx.ResolveUndo.Entries))
	}
	if idx.EndOfIndexEntry != nil {
		fmt.Fprintf(&b, "eoie\n")
	}
	return b.String()
}

// Snapshot is the part of a repository C29 speaks about.
type Snapshot struct {
	Head     string            // raw HEAD text
	Refs     map[string]string // every loose ref file + packed-refs entries (name -> text)
	Index    string            // decoded on-disk index rendered, or "<undecodable>"
	Tracked  map[string]string // tracked path -> kind|mode|content-hash
	AllFiles map[string]string // every worktree path -> kind|exec|content-hash
}

// TakeSnapshot reads the image directly.
func TakeSnapshot(d *simfs.Disk) Snapshot {
	s := Snapshot{Refs: map[string]string{}, Tracked: map[string]string{}, AllFiles: map[string]string{}}
	if b, ok := d.ReadFile("/w/.git/HEAD"); ok {
		s.Head = string(b)
	}
	for _, e := range d.List("/w/.git/refs") {
		if e.Kind == "file" {
			s.Refs[strings.TrimPrefix(e.Path, "/w/.git/")] = strings.TrimSpace(string(e.Data))
		}
	}
	if b, ok := d.ReadFile("/w/.git/packed-refs"); ok {
		for _, line := range strings.Split(string(b), "\n") {
			f := strings.Fields(line)
			if len(f) == 2 && !strings.HasPrefix(line, "#") && !strings.HasPrefix(line, "^") {
				if _, loose := s.Refs[f[1]]; !loose {
					s.Refs[f[1]] = f[0]
				}
			}
		}
	}
	idx, ok := DecodeIndexOnDisk(d)
	if !ok {
		s.Index = "<undecodable>"
	} else {
		s.Index = IndexString(idx)
	}
	tracked := map[string]bool{}
	if idx != nil {
		for _, e := range idx.Entries {
			tracked[e.Name] = true
		}
	}
	for _, e := range d.List("/w") {
		rel := strings.TrimPrefix(e.Path, "/w/")
		if rel == ".git" || strings.HasPrefix(rel, ".git/") || e.Kind == "dir" {
			continue
		}
		var v string
		switch e.Kind {
		case "link":
			v = "link|" + e.Target
		default:
			v = fmt.Sprintf("file|%v|%s", e.Mode&0o100 != 0, core.HashStrings([]string{string(e.Data)}))
		}
		s.AllFiles[rel] = v
		if tracked[rel] {
			s.Tracked[rel] = v
		}
	}
	for p := range tracked {
		if _, ok := s.Tracked[p]; !ok {
			s.Tracked[p] = "<absent>"
		}
	}
	return s
}

// Diff lists the components that differ between two snapshots, in a fixed order.
func (a Snapshot) Diff(b Snapshot) []string {
	var out []string
	if a.Head != b.Head {
		out = append(out, "HEAD")
	}
	if !mapsEqual(a.Refs, b.Refs) {
		out = append(out, "refs")
	}
	if a.Index != b.Index {
		out = append(out, "index")
	}
	if !mapsEqual(a.Tracked, b.Tracked) {
		out = append(out, "tracked-files")
	}
	return out
}

func mapsEqual(a, b map[string]string) bool {
	if len(a) != len(b) {
		return false
	}
	for k, v := range a {
		if bv, ok := b[k]; !ok || bv != v {
			return false
		}
	}
	return true
}

// GenSteps draws a history.
func GenSteps(r *core.Rand, n int, weights map[string]int) []Step {
	var bag []string
	keys := make([]string, 0, len(weights))
	for k := range weights {
		keys = append(keys, k)
	}
	sort.Strings(keys)
	for _, k := range keys {
		for i := 0; i < weights[k]; i++ {
			bag = append(bag, k)
		}
	}
	out := make([]Step, 0, n)
	for i := 0; i < n; i++ {
		out = append(out, Step{Kind: bag[r.Intn(len(bag))], A: r.Intn(40), B: r.Intn(40), F: r.Chance(1, 3)})
	}
	return out
}
