//go:build verif

// Package hooks connects go-git's verif-only seams (internal/simhook) to the
// simulation driver.
package hooks

import (
	"fmt"
	"runtime"
	"sync"

	"github.com/go-git/go-git/v6/internal/simhook"
	"github.com/go-git/go-git/v6/verifsim/sched"
)

// Deterministic makes map-ordered hash lists sorted inside go-git.
func Deterministic(on bool) { simhook.Deterministic = on }

func site(skip int) string {
	_, file, line, ok := runtime.Caller(skip)
	if !ok {
		return "?"
	}
	// keep the last two path elements
	n := 0
	for i := len(file) - 1; i >= 0; i-- {
		if file[i] == '/' {
			n++
			if n == 2 {
				file = file[i+1:]
				break
			}
		}
	}
	return fmt.Sprintf("%s:%d", file, line)
}

// Install routes lock and yield hooks to drv. Call Uninstall when the run ends.
func Install(drv *sched.Driver) {
	simhook.LockHandler = func(mu sync.Locker) {
		s := site(3)
		switch m := mu.(type) {
		case *sync.Mutex:
			drv.ParkUntil("", "lock", s, func() bool {
				if m.TryLock() {
					m.Unlock()
					return true
				}
				return false
			})
		case *sync.RWMutex:
			drv.ParkUntil("", "lock", s, func() bool {
				if m.TryLock() {
					m.Unlock()
					return true
				}
				return false
			})
		default:
			drv.ParkUntil("", "lock", s, nil)
		}
	}
	simhook.RLockHandler = func(m *sync.RWMutex) {
		drv.ParkUntil("", "rlock", site(3), func() bool {
			if m.TryRLock() {
				m.RUnlock()
				return true
			}
			return false
		})
	}
	simhook.YieldHandler = func(s string) { drv.ParkUntil("", "yield", s, nil) }
	// A sync.Once whose function does I/O: a second caller would block on the
	// Once's internal mutex, which the bubble does not see as durably blocked.
	// It is parked here until nobody is inside.
	var onceMu sync.Mutex
	inside := map[any]int{}
	simhook.OnceHandler = func(key any, enter bool) {
		if !enter {
			onceMu.Lock()
			inside[key]--
			if inside[key] <= 0 {
				delete(inside, key)
			}
			onceMu.Unlock()
			return
		}
		drv.ParkUntil("", "once", site(3), func() bool {
			onceMu.Lock()
			defer onceMu.Unlock()
			return inside[key] == 0
		})
		onceMu.Lock()
		inside[key]++
		onceMu.Unlock()
	}
}

// Uninstall removes the handlers.
func Uninstall() {
	simhook.LockHandler = nil
	simhook.RLockHandler = nil
	simhook.YieldHandler = nil
	simhook.OnceHandler = nil
}
