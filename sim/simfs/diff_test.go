package simfs_test

// TestDiffOSFS is a seeded differential test: it drives the same random,
// fault-free operation sequence against a simfs view and against go-billy's
// real-disk backend (osfs BoundOS) and compares every observable result, and
// the whole tree after every operation.
//
// It runs, in order: the hand-reduced `repros` of every known discrepancy
// class, the scripted go-git-like `scenarios`, seeds 1..300 of the raw random
// generator, and 300 more seeds passed through sanitize() (which avoids the
// known state-diverging constructs so sequences run to the end).
//
// Discrepancies are logged (with an automatically shrunk reproduction for the
// first occurrence of every class) and the test fails only at the end with a
// summary, so all classes are visible in one run. After a discrepancy a
// sequence continues only while both worlds are verifiably still in the same
// state (same tree, same handle pool and offsets).
//
// Intended differences that are NOT compared: mtimes, permission bits other
// than the 0o100 bit of regular files, directory modes and sizes, error
// message text, flock. Sequences in which osfs reports "path escapes from
// parent" are abandoned silently (simfs views are not Bound by default).

import (
	"bytes"
	"errors"
	"fmt"
	"io"
	"io/fs"
	"math/rand"
	"os"
	"path"
	"sort"
	"strings"
	"syscall"
	"testing"

	"github.com/go-git/go-billy/v6"
	"github.com/go-git/go-billy/v6/osfs"
	"github.com/go-git/go-git/v6/verifsim/simfs"
)

// ---------------------------------------------------------------- operations

type opKind int

const (
	kOpenFile opKind = iota
	kCreate
	kOpen
	kWrite
	kRead
	kReadAt
	kWriteAt
	kSeek
	kTruncate
	kFStat
	kClose
	kRename
	kRemove
	kMkdirAll
	kReadDir
	kSymlink
	kReadlink
	kStat
	kLstat
	kChmod
	kTempFile
	kChroot
	kRenameH // Rename(handle.Name(), p)
	kRemoveH // Remove(handle.Name())
)

var kindNames = map[opKind]string{
	kOpenFile: "OpenFile", kCreate: "Create", kOpen: "Open", kWrite: "Write", kRead: "Read",
	kReadAt: "ReadAt", kWriteAt: "WriteAt", kSeek: "Seek", kTruncate: "Truncate", kFStat: "File.Stat",
	kClose: "Close", kRename: "Rename", kRemove: "Remove", kMkdirAll: "MkdirAll", kReadDir: "ReadDir",
	kSymlink: "Symlink", kReadlink: "Readlink", kStat: "Stat", kLstat: "Lstat", kChmod: "Chmod",
	kTempFile: "TempFile", kChroot: "Chroot", kRenameH: "RenameByHandleName", kRemoveH: "RemoveByHandleName",
}

type op struct {
	k      opKind
	sub    bool // run against the Chroot()ed sub-filesystem
	p, p2  string
	flag   int
	perm   fs.FileMode
	slot   int
	data   []byte
	n      int
	off    int64
	whence int
}

func flagStr(flag int) string {
	var s []string
	switch flag & (os.O_RDONLY | os.O_WRONLY | os.O_RDWR) {
	case os.O_RDONLY:
		s = append(s, "O_RDONLY")
	case os.O_WRONLY:
		s = append(s, "O_WRONLY")
	case os.O_RDWR:
		s = append(s, "O_RDWR")
	}
	for _, f := range []struct {
		b int
		n string
	}{{os.O_CREATE, "O_CREATE"}, {os.O_EXCL, "O_EXCL"}, {os.O_TRUNC, "O_TRUNC"}, {os.O_APPEND, "O_APPEND"}} {
		if flag&f.b != 0 {
			s = append(s, f.n)
		}
	}
	return strings.Join(s, "|")
}

func (o op) String() string {
	fsn := "fs"
	if o.sub {
		fsn = "sub"
	}
	h := fmt.Sprintf("h%d", o.slot)
	switch o.k {
	case kOpenFile:
		return fmt.Sprintf("%s = %s.OpenFile(%q, %s, %#o)", h, fsn, o.p, flagStr(o.flag), o.perm)
	case kCreate:
		return fmt.Sprintf("%s = %s.Create(%q)", h, fsn, o.p)
	case kOpen:
		return fmt.Sprintf("%s = %s.Open(%q)", h, fsn, o.p)
	case kWrite:
		return fmt.Sprintf("%s.Write(%q)", h, o.data)
	case kRead:
		return fmt.Sprintf("%s.Read(buf[%d])", h, o.n)
	case kReadAt:
		return fmt.Sprintf("%s.ReadAt(buf[%d], %d)", h, o.n, o.off)
	case kWriteAt:
		return fmt.Sprintf("%s.WriteAt(%q, %d)", h, o.data, o.off)
	case kSeek:
		return fmt.Sprintf("%s.Seek(%d, %d)", h, o.off, o.whence)
	case kTruncate:
		return fmt.Sprintf("%s.Truncate(%d)", h, o.off)
	case kFStat:
		return fmt.Sprintf("%s.Stat()", h)
	case kClose:
		return fmt.Sprintf("%s.Close()", h)
	case kRename:
		return fmt.Sprintf("%s.Rename(%q, %q)", fsn, o.p, o.p2)
	case kRemove:
		return fmt.Sprintf("%s.Remove(%q)", fsn, o.p)
	case kMkdirAll:
		return fmt.Sprintf("%s.MkdirAll(%q, 0o755)", fsn, o.p)
	case kReadDir:
		return fmt.Sprintf("%s.ReadDir(%q)", fsn, o.p)
	case kSymlink:
		return fmt.Sprintf("%s.Symlink(target=%q, link=%q)", fsn, o.p, o.p2)
	case kReadlink:
		return fmt.Sprintf("%s.Readlink(%q)", fsn, o.p)
	case kStat:
		return fmt.Sprintf("%s.Stat(%q)", fsn, o.p)
	case kLstat:
		return fmt.Sprintf("%s.Lstat(%q)", fsn, o.p)
	case kChmod:
		return fmt.Sprintf("%s.Chmod(%q, %#o)", fsn, o.p, o.perm)
	case kTempFile:
		return fmt.Sprintf("%s = %s.TempFile(%q, %q)", h, fsn, o.p, o.p2)
	case kChroot:
		return fmt.Sprintf("sub = fs.Chroot(%q)", o.p)
	case kRenameH:
		return fmt.Sprintf("fs-of(%s).Rename(%s.Name(), %q)", h, h, o.p)
	case kRemoveH:
		return fmt.Sprintf("fs-of(%s).Remove(%s.Name())", h, h)
	}
	return "?"
}

// ------------------------------------------------------------------- results

type finfo struct {
	name    string
	size    int64
	isDir   bool
	symlink bool
	exec    bool
}

func infoOf(fi fs.FileInfo) *finfo {
	return &finfo{
		name:    fi.Name(),
		size:    fi.Size(),
		isDir:   fi.Mode().IsDir(),
		symlink: fi.Mode()&fs.ModeSymlink != 0,
		exec:    fi.Mode()&0o100 != 0,
	}
}

type res struct {
	skipped  bool
	panicked string
	err      error
	n        int
	data     []byte
	off      int64
	info     *finfo
	names    []string
	hasNames bool
	str      string
}

// errKind maps an error to a comparable class. The first group is compared
// strictly; "isdir"/"notdir"/"notempty"/"other" are compared softly.
func errKind(err error) string {
	switch {
	case err == nil:
		return "ok"
	case errors.Is(err, os.ErrClosed):
		return "closed"
	case errors.Is(err, io.EOF):
		return "EOF"
	case errors.Is(err, syscall.ENOTEMPTY): // note: ENOTEMPTY also Is(os.ErrExist)
		return "notempty"
	case errors.Is(err, syscall.EISDIR):
		return "isdir"
	case errors.Is(err, syscall.ENOTDIR):
		return "notdir"
	case errors.Is(err, os.ErrNotExist):
		return "notexist"
	case errors.Is(err, os.ErrExist):
		return "exist"
	}
	return "other"
}

func strictKind(k string) bool {
	switch k {
	case "ok", "closed", "EOF", "notexist", "exist":
		return true
	}
	return false
}

func hasErrno(err error) bool {
	var pe *os.PathError
	var le *os.LinkError
	var en syscall.Errno
	return (errors.As(err, &pe) || errors.As(err, &le)) && errors.As(err, &en)
}

func isEscape(err error) bool {
	return err != nil && (errors.Is(err, osfs.ErrPathEscapesParent) || strings.Contains(err.Error(), "path escapes"))
}

// --------------------------------------------------------------------- world

const nSlots = 4

type world struct {
	label  string
	fs     billy.Filesystem
	sub    billy.Filesystem
	h      [nSlots]billy.File
	hfs    [nSlots]billy.Filesystem // filesystem the handle was opened on
	opened []billy.File             // everything ever opened, for final cleanup
	dead   bool                     // an operation panicked; do not touch again
}

func (w *world) setSlot(slot int, fsys billy.Filesystem, f billy.File, err error) {
	if old := w.h[slot]; old != nil {
		_ = old.Close()
	}
	w.h[slot], w.hfs[slot] = nil, nil
	if err == nil && f != nil {
		w.h[slot], w.hfs[slot] = f, fsys
		w.opened = append(w.opened, f)
	}
}

func (w *world) closeAll() {
	if w.dead {
		return // a panic inside simfs leaves its disk mutex held
	}
	for _, f := range w.opened {
		_ = f.Close()
	}
}

func isTmpName(s string) bool { return strings.HasPrefix(s, "tmp_") }

// normPath replaces generated temp-file names (which legitimately differ).
func normPath(p string) string {
	parts := strings.Split(p, "/")
	for i, s := range parts {
		if isTmpName(s) {
			parts[i] = "tmp_*"
		}
	}
	return strings.Join(parts, "/")
}

func (w *world) apply(o op) (r res) {
	defer func() {
		if p := recover(); p != nil {
			r.panicked = fmt.Sprint(p)
			w.dead = true
		}
	}()
	fsys := w.fs
	if o.sub {
		if w.sub == nil {
			r.skipped = true
			return
		}
		fsys = w.sub
	}
	needH := func() billy.File {
		f := w.h[o.slot]
		if f == nil {
			r.skipped = true
		}
		return f
	}
	switch o.k {
	case kOpenFile, kCreate, kOpen:
		var f billy.File
		var err error
		switch o.k {
		case kOpenFile:
			f, err = fsys.OpenFile(o.p, o.flag, o.perm)
		case kCreate:
			f, err = fsys.Create(o.p)
		default:
			f, err = fsys.Open(o.p)
		}
		w.setSlot(o.slot, fsys, f, err)
		r.err = err
		if err == nil {
			r.str = f.Name()
		}
	case kTempFile:
		f, err := fsys.TempFile(o.p, o.p2)
		w.setSlot(o.slot, fsys, f, err)
		r.err = err
		if err == nil {
			wantDir := o.p
			if wantDir == "" {
				wantDir = ".tmp"
			}
			name := f.Name()
			_, serr := fsys.Lstat(name)
			r.str = fmt.Sprintf("inDir=%v hasPrefix=%v lstatByName=%v",
				path.Dir(name) == path.Clean(wantDir), strings.HasPrefix(path.Base(name), o.p2), serr == nil)
		}
	case kWrite:
		if f := needH(); f != nil {
			r.n, r.err = f.Write(o.data)
		}
	case kRead:
		if f := needH(); f != nil {
			buf := make([]byte, o.n)
			r.n, r.err = f.Read(buf)
			if r.n >= 0 && r.n <= len(buf) {
				r.data = buf[:r.n]
			}
		}
	case kReadAt:
		if f := needH(); f != nil {
			buf := make([]byte, o.n)
			r.n, r.err = f.ReadAt(buf, o.off)
			if r.n >= 0 && r.n <= len(buf) {
				r.data = buf[:r.n]
			}
		}
	case kWriteAt:
		if f := needH(); f != nil {
			r.n, r.err = f.WriteAt(o.data, o.off)
		}
	case kSeek:
		if f := needH(); f != nil {
			// lseek on a directory handle is filesystem specific: not compared
			if fi, err := f.Stat(); err == nil && fi.IsDir() {
				r.skipped = true
				return
			}
			r.off, r.err = f.Seek(o.off, o.whence)
		}
	case kTruncate:
		if f := needH(); f != nil {
			r.err = f.Truncate(o.off)
		}
	case kFStat:
		if f := needH(); f != nil {
			fi, err := f.Stat()
			r.err = err
			if err == nil {
				r.info = infoOf(fi)
				r.info.name = "" // not compared for handles
			}
		}
	case kClose:
		if f := needH(); f != nil {
			r.err = f.Close()
		}
	case kRename:
		r.err = fsys.Rename(o.p, o.p2)
	case kRemove:
		r.err = fsys.Remove(o.p)
	case kRenameH:
		if f := needH(); f != nil {
			r.err = w.hfs[o.slot].Rename(f.Name(), o.p)
		}
	case kRemoveH:
		if f := needH(); f != nil {
			r.err = w.hfs[o.slot].Remove(f.Name())
		}
	case kMkdirAll:
		r.err = fsys.MkdirAll(o.p, 0o755)
	case kReadDir:
		es, err := fsys.ReadDir(o.p)
		r.err = err
		if err == nil {
			r.hasNames = true
			for _, e := range es {
				r.names = append(r.names, normPath(e.Name())+":"+typeStr(e.Type()))
			}
			sort.Strings(r.names)
		}
	case kSymlink:
		r.err = fsys.Symlink(o.p, o.p2)
	case kReadlink:
		r.str, r.err = fsys.Readlink(o.p)
	case kStat, kLstat:
		var fi fs.FileInfo
		var err error
		if o.k == kStat {
			fi, err = fsys.Stat(o.p)
		} else {
			fi, err = fsys.Lstat(o.p)
		}
		r.err = err
		if err == nil {
			r.info = infoOf(fi)
		}
	case kChmod:
		r.err = fsys.(billy.Chmod).Chmod(o.p, o.perm)
	case kChroot:
		sub, err := w.fs.Chroot(o.p)
		r.err = err
		if err == nil {
			w.sub = sub
		}
	}
	return r
}

func typeStr(m fs.FileMode) string {
	switch {
	case m&fs.ModeDir != 0:
		return "dir"
	case m&fs.ModeSymlink != 0:
		return "link"
	case m&fs.ModeType == 0:
		return "file"
	}
	return "special"
}

// snapshot walks the whole tree without following links.
func snapshot(fsys billy.Filesystem) (lines []string, err error) {
	defer func() {
		if p := recover(); p != nil {
			err = fmt.Errorf("panic: %v", p)
		}
	}()
	var walk func(dir string) error
	walk = func(dir string) error {
		es, err := fsys.ReadDir(dir)
		if err != nil {
			return fmt.Errorf("ReadDir(%q): %w", dir, err)
		}
		for _, e := range es {
			p := path.Join(dir, e.Name())
			fi, err := fsys.Lstat(p)
			if err != nil {
				return fmt.Errorf("Lstat(%q): %w", p, err)
			}
			np := normPath(p)
			switch {
			case fi.Mode().IsDir():
				lines = append(lines, np+"/")
				if err := walk(p); err != nil {
					return err
				}
			case fi.Mode()&fs.ModeSymlink != 0:
				t, err := fsys.Readlink(p)
				if err != nil {
					return fmt.Errorf("Readlink(%q): %w", p, err)
				}
				lines = append(lines, np+" -> "+t)
			default:
				f, err := fsys.Open(p)
				if err != nil {
					return fmt.Errorf("Open(%q): %w", p, err)
				}
				b, err := io.ReadAll(f)
				f.Close()
				if err != nil {
					return fmt.Errorf("ReadAll(%q): %w", p, err)
				}
				x := ""
				if fi.Mode()&0o100 != 0 {
					x = " +x"
				}
				if fi.Size() != int64(len(b)) {
					x += fmt.Sprintf(" LSTAT-SIZE=%d", fi.Size())
				}
				lines = append(lines, fmt.Sprintf("%s = %q%s", np, b, x))
			}
		}
		return nil
	}
	err = walk("")
	sort.Strings(lines)
	return lines, err
}

// ---------------------------------------------------------------- comparison

type diff struct {
	cat    string // short category, part of the class signature
	detail string
	soft   bool
}

func compare(o op, a, b res) (ds []diff, escape bool) { // a = osfs, b = simfs
	if isEscape(a.err) || isEscape(b.err) {
		return nil, true
	}
	if a.panicked != "" || b.panicked != "" {
		return []diff{{cat: "panic", detail: fmt.Sprintf("osfs panic=%q simfs panic=%q", a.panicked, b.panicked)}}, false
	}
	if a.skipped != b.skipped {
		return []diff{{cat: "harness-skip", detail: fmt.Sprintf("osfs skipped=%v simfs skipped=%v", a.skipped, b.skipped)}}, false
	}
	if a.skipped {
		return nil, false
	}
	ka, kb := errKind(a.err), errKind(b.err)
	if ka != kb {
		d := diff{detail: fmt.Sprintf("osfs err=%v | simfs err=%v", a.err, b.err)}
		switch {
		case (ka == "ok") != (kb == "ok"):
			d.cat = fmt.Sprintf("success-vs-failure(osfs=%s,simfs=%s)", ka, kb)
		case strictKind(ka) || strictKind(kb):
			d.cat = fmt.Sprintf("errkind(osfs=%s,simfs=%s)", ka, kb)
		case hasErrno(a.err) && hasErrno(b.err):
			d.cat = fmt.Sprintf("errno-soft(osfs=%s,simfs=%s)", ka, kb)
			d.soft = true
		}
		if d.cat != "" {
			ds = append(ds, d)
		}
	}
	add := func(cat, f string, args ...any) {
		ds = append(ds, diff{cat: cat, detail: fmt.Sprintf(f, args...)})
	}
	if a.n != b.n {
		add("count", "osfs n=%d simfs n=%d", a.n, b.n)
	}
	if !bytes.Equal(a.data, b.data) {
		add("data", "osfs data=%q simfs data=%q", a.data, b.data)
	}
	if a.off != b.off {
		add("offset", "osfs off=%d simfs off=%d", a.off, b.off)
	}
	if a.str != b.str {
		cat := "string"
		switch o.k {
		case kOpenFile, kCreate, kOpen:
			cat = "File.Name"
		case kReadlink:
			cat = "target"
		}
		add(cat, "osfs %q simfs %q", a.str, b.str)
	}
	if (a.info == nil) != (b.info == nil) {
		if a.err == nil && b.err == nil {
			add("info-nil", "osfs info=%v simfs info=%v", a.info, b.info)
		}
	} else if a.info != nil {
		ia, ib := a.info, b.info
		if ia.isDir != ib.isDir {
			add("info.IsDir", "osfs %v simfs %v", ia.isDir, ib.isDir)
		}
		if ia.symlink != ib.symlink {
			add("info.Symlink", "osfs %v simfs %v", ia.symlink, ib.symlink)
		}
		if !ia.isDir && !ib.isDir {
			if ia.size != ib.size {
				add("info.Size", "osfs %d simfs %d", ia.size, ib.size)
			}
			if !ia.symlink && !ib.symlink && ia.exec != ib.exec {
				add("info.Exec", "osfs %v simfs %v", ia.exec, ib.exec)
			}
		}
		if c := path.Clean("/" + o.p); c != "/" && normPath(ia.name) != normPath(ib.name) {
			add("info.Name", "osfs %q simfs %q", ia.name, ib.name)
		}
	}
	if a.hasNames != b.hasNames || strings.Join(a.names, ",") != strings.Join(b.names, ",") {
		if a.err == nil && b.err == nil {
			add("readdir", "osfs %v simfs %v", a.names, b.names)
		}
	}
	return ds, false
}

func compareTrees(osw, simw *world) *diff {
	ta, ea := snapshot(osw.fs)
	tb, eb := snapshot(simw.fs)
	if isEscape(ea) || isEscape(eb) {
		return nil
	}
	if ea != nil || eb != nil {
		return &diff{cat: "tree-walk-error", detail: fmt.Sprintf("osfs walk err=%v | simfs walk err=%v", ea, eb)}
	}
	if strings.Join(ta, "\n") == strings.Join(tb, "\n") {
		return nil
	}
	onlyA, onlyB := setDiff(ta, tb), setDiff(tb, ta)
	return &diff{cat: "tree", detail: fmt.Sprintf("only in osfs: %q | only in simfs: %q", onlyA, onlyB)}
}

func setDiff(a, b []string) []string {
	m := map[string]int{}
	for _, s := range b {
		m[s]++
	}
	var out []string
	for _, s := range a {
		if m[s] > 0 {
			m[s]--
			continue
		}
		out = append(out, s)
	}
	return out
}

// -------------------------------------------------------------------- runner

type finding struct {
	idx   int // index of the op in the sequence
	op    op
	d     diff
	class string
}

type runner struct {
	t       *testing.T
	tmpBase string
	nRun    int
	cov     map[string]int // "<op> <osfs result kind>" -> count (main runs only)
	// ops generated / actually executed before a run stopped (main runs only)
	opsTotal, opsDone int
}

// run executes ops on two fresh worlds and returns every finding. After a
// finding the sequence continues only if both worlds are still demonstrably
// in the same state (same tree, same handle pool, same file offsets);
// otherwise - or when osfs reports a root escape - the run stops there.
func (rn *runner) run(ops []op) []finding {
	fs, done := rn.run2(ops)
	if rn.cov != nil {
		rn.opsTotal += len(ops)
		rn.opsDone += done
	}
	return fs
}

func (rn *runner) run2(ops []op) (out []finding, done int) {
	rn.nRun++
	dir, err := os.MkdirTemp(rn.tmpBase, "w")
	if err != nil {
		rn.t.Fatal(err)
	}
	defer os.RemoveAll(dir)
	osw := &world{label: "osfs", fs: osfs.New(dir, osfs.WithBoundOS())}
	sfs := simfs.NewDisk().FS("/root", "t")
	// the temp dir exists on the real disk; make the view's base exist too
	if err := sfs.MkdirAll("", 0o755); err != nil {
		rn.t.Fatal(err)
	}
	simw := &world{label: "simfs", fs: sfs}
	defer osw.closeAll()
	defer simw.closeAll()

	for i, o := range ops {
		done = i
		ra := osw.apply(o)
		rb := simw.apply(o)
		ds, escape := compare(o, ra, rb)
		if escape {
			return out, done
		}
		if rn.cov != nil && !ra.skipped {
			rn.cov[kindNames[o.k]+" "+errKind(ra.err)]++
		}
		if len(ds) > 0 {
			d := ds[0]
			var all []string
			for _, x := range ds {
				all = append(all, x.cat+": "+x.detail)
			}
			d.detail = strings.Join(all, "; ")
			cls := kindNames[o.k] + " " + d.cat
			if d.cat == "File.Name" {
				cls = "Open/OpenFile/Create File.Name"
			}
			out = append(out, finding{idx: i, op: o, d: d, class: cls})
			if ra.panicked != "" || rb.panicked != "" || !handlesInSync(osw, simw) {
				return out, done
			}
		}
		if ra.skipped {
			continue
		}
		if d := compareTrees(osw, simw); d != nil {
			out = append(out, finding{idx: i, op: o, d: *d, class: kindNames[o.k] + " -> " + d.cat + " differs afterwards"})
			return out, done
		}
	}
	return out, len(ops)
}

// handlesInSync reports whether both handle pools hold handles in the same
// slots with the same closed-ness and file offsets.
func handlesInSync(a, b *world) bool {
	if (a.sub == nil) != (b.sub == nil) {
		return false
	}
	for i := 0; i < nSlots; i++ {
		if (a.h[i] == nil) != (b.h[i] == nil) {
			return false
		}
		if a.h[i] == nil {
			continue
		}
		oa, ea := a.h[i].Seek(0, io.SeekCurrent)
		ob, eb := b.h[i].Seek(0, io.SeekCurrent)
		if errors.Is(ea, os.ErrClosed) != errors.Is(eb, os.ErrClosed) {
			return false
		}
		if ea == nil && eb == nil && oa != ob {
			return false
		}
	}
	return true
}

func findClass(fs []finding, class string) *finding {
	for i := range fs {
		if fs[i].class == class {
			return &fs[i]
		}
	}
	return nil
}

// shrink removes ops while the same class of finding is still produced.
func (rn *runner) shrink(ops []op, class string) []op {
	cur := append([]op(nil), ops...)
	for changed := true; changed; {
		changed = false
		for i := len(cur) - 1; i >= 0; i-- {
			cand := append(append([]op(nil), cur[:i]...), cur[i+1:]...)
			if f := findClass(rn.run(cand), class); f != nil {
				cur = cand[:f.idx+1]
				changed = true
				if i > len(cur) {
					i = len(cur)
				}
			}
		}
	}
	return cur
}

// ----------------------------------------------------------------- generator

var (
	rootPaths = []string{
		"a", "a", "b", "b", "d", "d", "d/x", "d/x", "d/e", "d/e/y", "d/e/y",
		"l", "l", "l2", "d/l", "d/e/l", // symlink names
		"m/z", "m/n/w", // missing parents
		"a/q",            // parent is (usually) a file
		"l/x",            // through a link
		"g", "d2", "d/f", // rename targets for directories
		"nope",
		"./a", "d/e/../x", "../a", // unclean spellings
	}
	subPaths    = []string{"x", "x", "e/y", "e", "l", "q", "n/z", "e/l", "nope"}
	linkNames   = []string{"l", "l", "l2", "d/l", "d/e/l"}
	linkTargets = map[string][]string{
		// relative to the directory that holds the link; never absolute, never escaping
		"l":     {"a", "b", "d", "d/x", "d/e", "missing", "l2", "d/l"},
		"l2":    {"a", "d", "d/e/y", "missing", "l"},
		"d/l":   {"x", "e", "e/y", "../a", "../b", "missing"},
		"d/e/l": {"y", "missing", "y"},
	}
	subLinkTargets = []string{"x", "e", "e/y", "missing"}
	accModes       = []int{os.O_RDONLY, os.O_WRONLY, os.O_RDWR}
)

func pick(r *rand.Rand, s []string) string { return s[r.Intn(len(s))] }

func genData(r *rand.Rand) []byte {
	n := r.Intn(9)
	b := make([]byte, n)
	for i := range b {
		b[i] = byte('a' + r.Intn(26))
	}
	return b
}

func genFlag(r *rand.Rand) int {
	flag := accModes[r.Intn(3)]
	if r.Intn(2) == 0 {
		flag |= os.O_CREATE
	}
	if r.Intn(4) == 0 {
		flag |= os.O_EXCL
	}
	if r.Intn(3) == 0 {
		flag |= os.O_TRUNC
	}
	if r.Intn(4) == 0 {
		flag |= os.O_APPEND
	}
	return flag
}

func genPerm(r *rand.Rand) fs.FileMode {
	if r.Intn(3) == 0 {
		return 0o755
	}
	return 0o644
}

func genOp(r *rand.Rand, i int) op {
	o := op{slot: r.Intn(nSlots)}
	o.sub = r.Intn(5) == 0
	paths := rootPaths
	if o.sub {
		paths = subPaths
	}
	o.p = pick(r, paths)
	// the first few ops are biased towards building something
	if i < 8 {
		switch r.Intn(6) {
		case 0, 1:
			o.k = kCreate
		case 2:
			o.k = kMkdirAll
		case 3:
			o.k = kWrite
			o.data = genData(r)
		case 4:
			o.k = kOpenFile
			o.flag = genFlag(r) | os.O_CREATE
			o.perm = genPerm(r)
		default:
			o.k = kSymlink
			genSymlink(r, &o)
		}
		return o
	}
	switch x := r.Intn(100); {
	case x < 12:
		o.k = kOpenFile
		o.flag = genFlag(r)
		o.perm = genPerm(r)
	case x < 16:
		o.k = kCreate
	case x < 20:
		o.k = kOpen
	case x < 28:
		o.k = kWrite
		o.data = genData(r)
	case x < 34:
		o.k = kRead
		o.n = r.Intn(9)
	case x < 39:
		o.k = kReadAt
		o.n = r.Intn(9)
		o.off = int64(r.Intn(14)) - 1
	case x < 43:
		o.k = kWriteAt
		o.data = genData(r)
		o.off = int64(r.Intn(13)) - 1
	case x < 48:
		o.k = kSeek
		o.off = int64(r.Intn(16)) - 3
		o.whence = r.Intn(3)
	case x < 51:
		o.k = kTruncate
		o.off = int64(r.Intn(14)) - 1
	case x < 54:
		o.k = kFStat
	case x < 59:
		o.k = kClose
	case x < 67:
		o.k = kRename
		o.p2 = pick(r, paths)
	case x < 73:
		o.k = kRemove
	case x < 77:
		o.k = kMkdirAll
	case x < 81:
		o.k = kReadDir
		if r.Intn(4) == 0 {
			o.p = ""
		}
	case x < 85:
		o.k = kSymlink
		genSymlink(r, &o)
	case x < 87:
		o.k = kReadlink
		if !o.sub && r.Intn(3) > 0 {
			o.p = pick(r, linkNames)
		}
	case x < 90:
		o.k = kStat
		if r.Intn(10) == 0 {
			o.p = pick(r, []string{"", "."})
		} else if !o.sub && r.Intn(3) == 0 {
			o.p = pick(r, linkNames)
		}
	case x < 93:
		o.k = kLstat
		if r.Intn(10) == 0 {
			o.p = pick(r, []string{"", "."})
		} else if !o.sub && r.Intn(3) == 0 {
			o.p = pick(r, linkNames)
		}
	case x < 95:
		o.k = kChmod
		o.perm = []fs.FileMode{0o644, 0o755}[r.Intn(2)]
	case x < 97:
		o.k = kTempFile
		o.p = pick(r, []string{"", "d", "d/e", "m", "tmpdir"})
		if o.sub {
			o.p = pick(r, []string{"", "e", "n"})
		}
		o.p2 = "tmp_" + pick(r, []string{"pack_", "obj_", ""})
	case x < 98:
		o.k = kChroot
		o.sub = false
		o.p = pick(r, []string{"d", "d", "d", "d", "m", "a", "l"})
	case x < 99:
		o.k = kRenameH
	default:
		o.k = kRemoveH
	}
	return o
}

func genSymlink(r *rand.Rand, o *op) {
	if o.sub {
		o.p2 = pick(r, []string{"l", "e/l"})
		o.p = pick(r, subLinkTargets)
		if o.p2 == "e/l" {
			o.p = pick(r, []string{"y", "missing"})
		}
		return
	}
	o.p2 = pick(r, linkNames)
	o.p = pick(r, linkTargets[o.p2])
}

func genSeq(seed int64, n int) []op {
	r := rand.New(rand.NewSource(seed))
	ops := make([]op, n)
	for i := range ops {
		ops[i] = genOp(r, i)
	}
	// make sure some sequences exercise the sub-filesystem early (on an
	// existing directory; the random Chroot ops also hit missing ones)
	if seed%3 == 0 {
		ops[3] = op{k: kMkdirAll, p: "d"}
		ops[4] = op{k: kChroot, p: "d"}
	}
	return ops
}

// sanitize rewrites a generated sequence so that it avoids the constructs
// behind the already-known state-diverging discrepancies (O_CREATE or O_TRUNC
// without write access, Chroot to a missing directory, zero-length I/O,
// negative offsets, unclean path spellings, most dangling links), so that the remaining ops of a sequence get a
// chance to find something new instead of stopping early.
func sanitize(ops []op) []op {
	// prelude: make the usual symlink targets exist
	out := []op{
		{k: kCreate, slot: 0, p: "a"}, {k: kWrite, slot: 0, data: []byte("aaaa")},
		{k: kCreate, slot: 0, p: "b"}, {k: kWrite, slot: 0, data: []byte("bb")},
		{k: kCreate, slot: 0, p: "d/x"}, {k: kWrite, slot: 0, data: []byte("xxxxxx")},
		{k: kCreate, slot: 0, p: "d/e/y"}, {k: kClose, slot: 0},
	}
	for _, o := range ops {
		if o.k == kSymlink && (o.p == "missing" || strings.Contains(o.p, "..")) {
			// avoid (most) dangling links: point at something from the prelude
			switch {
			case o.sub && o.p2 == "e/l", o.p2 == "d/e/l":
				o.p = "y"
			case o.sub, o.p2 == "d/l":
				o.p = "x"
			default:
				o.p = "b"
			}
		}
		if strings.Contains(o.p, "..") || strings.HasPrefix(o.p, "./") {
			o.p = "b"
		}
		if strings.Contains(o.p2, "..") && o.k == kRename || strings.HasPrefix(o.p2, "./") {
			o.p2 = "b"
		}
		if o.off < 0 && (o.k == kWriteAt || o.k == kTruncate || o.k == kReadAt) {
			o.off = 0
		}
		switch o.k {
		case kOpenFile:
			if o.flag&(os.O_WRONLY|os.O_RDWR) == 0 {
				o.flag &^= os.O_CREATE | os.O_TRUNC | os.O_EXCL
			}
		case kChroot:
			out = append(out, op{k: kMkdirAll, p: o.p})
		case kRead, kReadAt:
			if o.n == 0 {
				o.n = 3
			}
		case kWrite, kWriteAt:
			if len(o.data) == 0 {
				o.data = []byte("w")
			}
		}
		out = append(out, o)
	}
	return out
}

// ---------------------------------------------------------------------- test

const (
	diffSeeds      = 300 // seeds 1..diffSeeds: raw generator output
	diffCleanSeeds = 300 // further seeds whose sequences go through sanitize()
	diffOpsPer     = 40
)

// scenarios are scripted sequences that mimic go-git's storage patterns, so
// that these are covered regardless of what the random generator reaches.
var scenarios = map[string][]op{
	"tempfile-write-close-rename-into-missing-dir-then-readat": {
		{k: kTempFile, slot: 0, p: "objects/pack", p2: "tmp_pack_"},
		{k: kWrite, slot: 0, data: []byte("PACKdata")},
		{k: kWriteAt, slot: 0, data: []byte("XY"), off: 2},
		{k: kClose, slot: 0},
		{k: kRenameH, slot: 0, p: "objects/ab/cdef"},
		{k: kOpen, slot: 1, p: "objects/ab/cdef"},
		{k: kReadAt, slot: 1, n: 4, off: 2},
		{k: kReadAt, slot: 1, n: 8, off: 4},
		{k: kReadAt, slot: 1, n: 4, off: 8},
		{k: kReadDir, p: "objects"},
		{k: kReadDir, p: "objects/pack"},
		{k: kStat, p: "objects/ab/cdef"},
	},
	"tempfile-rename-before-close-and-over-open-reader": {
		{k: kCreate, slot: 0, p: "refs/heads/main"},
		{k: kWrite, slot: 0, data: []byte("old")},
		{k: kClose, slot: 0},
		{k: kOpen, slot: 1, p: "refs/heads/main"},
		{k: kTempFile, slot: 2, p: "", p2: "tmp_"},
		{k: kWrite, slot: 2, data: []byte("newer")},
		{k: kRenameH, slot: 2, p: "refs/heads/main"},
		{k: kRead, slot: 1, n: 8},
		{k: kFStat, slot: 1},
		{k: kWrite, slot: 2, data: []byte("+")},
		{k: kClose, slot: 2},
		{k: kOpen, slot: 3, p: "refs/heads/main"},
		{k: kRead, slot: 3, n: 8},
		{k: kReadDir, p: ".tmp"},
	},
	"ref-lock-truncate-rewrite": {
		{k: kOpenFile, slot: 0, p: "refs/heads/x", flag: os.O_RDWR | os.O_CREATE, perm: 0o644},
		{k: kWrite, slot: 0, data: []byte("aaaaaaaa")},
		{k: kClose, slot: 0},
		{k: kOpenFile, slot: 0, p: "refs/heads/x", flag: os.O_RDWR | os.O_CREATE, perm: 0o644},
		{k: kRead, slot: 0, n: 8},
		{k: kSeek, slot: 0, off: 0, whence: io.SeekStart},
		{k: kTruncate, slot: 0, off: 0},
		{k: kWrite, slot: 0, data: []byte("bbb")},
		{k: kFStat, slot: 0},
		{k: kClose, slot: 0},
		{k: kOpenFile, slot: 1, p: "refs/heads/x", flag: os.O_WRONLY | os.O_CREATE | os.O_TRUNC, perm: 0o644},
		{k: kWrite, slot: 1, data: []byte("c")},
		{k: kClose, slot: 1},
		{k: kOpenFile, slot: 1, p: "refs/heads/x", flag: os.O_WRONLY | os.O_APPEND, perm: 0},
		{k: kSeek, slot: 1, off: 0, whence: io.SeekStart},
		{k: kWrite, slot: 1, data: []byte("dd")},
		{k: kClose, slot: 1},
		{k: kOpenFile, slot: 2, p: "refs/heads/x", flag: os.O_RDWR | os.O_CREATE | os.O_EXCL, perm: 0o644},
		{k: kOpen, slot: 2, p: "refs/heads/x"},
		{k: kRead, slot: 2, n: 8},
		{k: kRead, slot: 2, n: 8},
	},
	"truncate-without-seek-then-write-leaves-hole": {
		{k: kCreate, slot: 0, p: "f"},
		{k: kWrite, slot: 0, data: []byte("abcdef")},
		{k: kTruncate, slot: 0, off: 2},
		{k: kWrite, slot: 0, data: []byte("Z")},
		{k: kSeek, slot: 0, off: 0, whence: io.SeekStart},
		{k: kRead, slot: 0, n: 8},
		{k: kTruncate, slot: 0, off: 10},
		{k: kReadAt, slot: 0, n: 8, off: 5},
	},
	"remove-open-file-then-use-handle-and-recreate": {
		{k: kCreate, slot: 0, p: "d/x"},
		{k: kWrite, slot: 0, data: []byte("abc")},
		{k: kRemove, p: "d/x"},
		{k: kWrite, slot: 0, data: []byte("def")},
		{k: kReadAt, slot: 0, n: 6, off: 0},
		{k: kFStat, slot: 0},
		{k: kCreate, slot: 1, p: "d/x"},
		{k: kWrite, slot: 1, data: []byte("Q")},
		{k: kReadAt, slot: 0, n: 6, off: 0},
		{k: kRemove, p: "d"},
		{k: kRemove, p: "d/x"},
		{k: kRemove, p: "d"},
		{k: kRemove, p: "d"},
		{k: kStat, p: "d"},
	},
	"chroot-dotgit-then-work-inside": {
		{k: kChroot, p: ".git"},
		{k: kStat, p: ".git"},
		{k: kReadDir, p: ""},
		{k: kCreate, slot: 0, sub: true, p: "HEAD"},
		{k: kWrite, slot: 0, data: []byte("ref: x")},
		{k: kClose, slot: 0},
		{k: kMkdirAll, sub: true, p: "objects/info"},
		{k: kReadDir, sub: true, p: ""},
		{k: kReadDir, p: ".git"},
		{k: kStat, sub: true, p: ""},
		{k: kLstat, sub: true, p: "."},
		{k: kTempFile, slot: 1, sub: true, p: "objects/pack", p2: "tmp_obj_"},
		{k: kRenameH, slot: 1, p: "objects/aa/bb"},
		{k: kStat, p: ".git/objects/aa/bb"},
	},
	"chroot-existing-dotgit-then-work-inside": {
		{k: kMkdirAll, p: ".git"},
		{k: kChroot, p: ".git"},
		{k: kStat, p: ".git"},
		{k: kCreate, slot: 0, sub: true, p: "HEAD"},
		{k: kWrite, slot: 0, data: []byte("ref: x")},
		{k: kClose, slot: 0},
		{k: kMkdirAll, sub: true, p: "objects/info"},
		{k: kReadDir, sub: true, p: ""},
		{k: kReadDir, sub: true, p: "."},
		{k: kReadDir, sub: true, p: "/"},
		{k: kReadDir, p: ".git"},
		{k: kStat, sub: true, p: ""},
		{k: kLstat, sub: true, p: "."},
		{k: kStat, sub: true, p: "/"},
		{k: kTempFile, slot: 1, sub: true, p: "objects/pack", p2: "tmp_obj_"},
		{k: kWrite, slot: 1, data: []byte("blob")},
		{k: kClose, slot: 1},
		{k: kRenameH, slot: 1, p: "objects/aa/bb"},
		{k: kStat, p: ".git/objects/aa/bb"},
		{k: kOpen, slot: 2, sub: true, p: "objects/aa/bb"},
		{k: kReadAt, slot: 2, n: 4, off: 0},
		{k: kRemove, sub: true, p: "objects/aa/bb"},
		{k: kRemove, sub: true, p: "objects/aa"},
		{k: kReadDir, sub: true, p: "objects"},
		{k: kReadDir, sub: true, p: "objects/pack"},
	},
	"symlinks-stat-lstat-open": {
		{k: kCreate, slot: 0, p: "d/x"},
		{k: kWrite, slot: 0, data: []byte("hello")},
		{k: kClose, slot: 0},
		{k: kSymlink, p: "d/x", p2: "l"},
		{k: kSymlink, p: "d", p2: "ld"},
		{k: kSymlink, p: "nowhere", p2: "dang"},
		{k: kSymlink, p: "../l", p2: "d/up"},
		{k: kStat, p: "l"}, {k: kLstat, p: "l"}, {k: kReadlink, p: "l"},
		{k: kStat, p: "ld"}, {k: kLstat, p: "ld"}, {k: kReadDir, p: "ld"}, {k: kStat, p: "ld/x"}, {k: kLstat, p: "ld/x"},
		{k: kStat, p: "dang"}, {k: kLstat, p: "dang"}, {k: kReadlink, p: "dang"}, {k: kOpen, slot: 1, p: "dang"},
		{k: kStat, p: "d/up"}, {k: kOpen, slot: 1, p: "d/up"}, {k: kRead, slot: 1, n: 8},
		{k: kReadlink, p: "d/x"}, {k: kReadlink, p: "nope"},
		{k: kOpenFile, slot: 2, p: "l", flag: os.O_WRONLY | os.O_TRUNC},
		{k: kWrite, slot: 2, data: []byte("via")},
		{k: kClose, slot: 2},
		{k: kChmod, p: "l", perm: 0o755},
		{k: kStat, p: "d/x"}, {k: kLstat, p: "l"},
		{k: kRemove, p: "l"},
		{k: kStat, p: "d/x"},
		{k: kRename, p: "ld", p2: "ld2"},
		{k: kLstat, p: "ld2"}, {k: kStat, p: "d"},
		{k: kSymlink, p: "d/x", p2: "ld2"},
		{k: kOpenFile, slot: 3, p: "dang", flag: os.O_WRONLY | os.O_CREATE, perm: 0o644},
		{k: kOpenFile, slot: 3, p: "dang", flag: os.O_WRONLY | os.O_CREATE | os.O_EXCL, perm: 0o644},
		{k: kRemove, p: "ld2"},
		{k: kReadDir, p: ""},
	},
	"renames": {
		{k: kCreate, slot: 0, p: "a"}, {k: kWrite, slot: 0, data: []byte("A")},
		{k: kCreate, slot: 1, p: "b"}, {k: kWrite, slot: 1, data: []byte("B")},
		{k: kMkdirAll, p: "d/e"}, {k: kMkdirAll, p: "g"}, {k: kCreate, slot: 2, p: "d/e/y"},
		{k: kRename, p: "a", p2: "a"},
		{k: kRename, p: "a", p2: "b"},
		{k: kReadAt, slot: 1, n: 4, off: 0}, {k: kWrite, slot: 1, data: []byte("2")}, {k: kReadAt, slot: 0, n: 4, off: 0},
		{k: kRename, p: "b", p2: "g"},
		{k: kRename, p: "g", p2: "b"},
		{k: kRename, p: "g", p2: "d"},
		{k: kRename, p: "d", p2: "g"},
		{k: kRename, p: "g", p2: "g/sub"},
		{k: kRename, p: "nope", p2: "new/dir/file"},
		{k: kReadDir, p: "new"},
		{k: kRename, p: "b", p2: "new/dir"},
		{k: kRename, p: "b", p2: "b/c"},
		{k: kRename, p: "g/e", p2: "new/dir"},
		{k: kRename, p: "b", p2: "deep/er/b"},
		{k: kWrite, slot: 0, data: []byte("still")},
		{k: kReadDir, p: ""},
	},
}

// repros are the hand-reduced sequences for every discrepancy class found so
// far (see the report that accompanied this test). They run first, so that
// the log starts with the minimal form of each class and says whether it
// still reproduces.
var repros = []struct {
	name string
	ops  []op
}{
	{"A1 Chroot to a missing dir creates it (osfs BoundOS does not)", []op{
		{k: kChroot, p: ".git"},
		{k: kStat, p: ".git"},
	}},
	{"B1 MkdirAll on a dangling symlink creates the link target (osfs: EEXIST)", []op{
		{k: kSymlink, p: "l2", p2: "l"},
		{k: kMkdirAll, p: "l"},
	}},
	{"B2 Create below a dangling symlink creates target dir + file (osfs: ENOENT)", []op{
		{k: kSymlink, p: "b", p2: "l"},
		{k: kCreate, slot: 0, p: "l/x"},
	}},
	{"B3 Rename to below a dangling symlink creates target dir and succeeds (osfs: ENOENT)", []op{
		{k: kSymlink, p: "l2", p2: "l"},
		{k: kCreate, slot: 0, p: "b"},
		{k: kRename, p: "b", p2: "l/x"},
	}},
	{"B4 Symlink below a dangling symlink creates target dir (osfs: ENOENT)", []op{
		{k: kSymlink, p: "nowhere", p2: "l"},
		{k: kSymlink, p: "x", p2: "l/k"},
	}},
	{"B5 MkdirAll on a symlink whose target's parent is missing: ENOENT (osfs: EEXIST)", []op{
		{k: kSymlink, p: "d/e", p2: "l"},
		{k: kMkdirAll, p: "l"},
	}},
	{"C1 MkdirAll over a regular file: ENOTDIR (osfs: EEXIST, i.e. os.ErrExist)", []op{
		{k: kCreate, slot: 0, p: "a"},
		{k: kMkdirAll, p: "a"},
	}},
	{"C2 Rename of a missing source to below a regular file: ENOTDIR (osfs: ENOENT)", []op{
		{k: kCreate, slot: 0, p: "d/e"},
		{k: kRename, p: "a/q", p2: "d/e/y"},
	}},
	{"D1 OpenFile(dir, O_RDONLY|O_CREATE) succeeds (osfs: EISDIR)", []op{
		{k: kMkdirAll, p: "d"},
		{k: kOpenFile, slot: 0, p: "d", flag: os.O_RDONLY | os.O_CREATE, perm: 0o644},
	}},
	{"E1 O_RDONLY|O_TRUNC does not truncate (Linux does)", []op{
		{k: kCreate, slot: 0, p: "a"},
		{k: kWrite, slot: 0, data: []byte("abc")},
		{k: kOpenFile, slot: 1, p: "a", flag: os.O_RDONLY | os.O_TRUNC},
	}},
	{"F1 zero-length ReadAt at/after EOF: EOF (osfs: nil)", []op{
		{k: kCreate, slot: 0, p: "a"},
		{k: kReadAt, slot: 0, n: 0, off: 5},
	}},
	{"F2 zero-length Read/ReadAt/WriteAt on wrong-mode, closed or directory handles fail (osfs: nil)", []op{
		{k: kOpenFile, slot: 0, p: "a", flag: os.O_WRONLY | os.O_CREATE, perm: 0o644},
		{k: kRead, slot: 0, n: 0},
		{k: kReadAt, slot: 0, n: 0, off: 0},
		{k: kOpen, slot: 1, p: "a"},
		{k: kWriteAt, slot: 1, data: nil, off: 4},
		{k: kClose, slot: 1},
		{k: kWriteAt, slot: 1, data: nil, off: 4},
		{k: kMkdirAll, p: "d"},
		{k: kOpen, slot: 2, p: "d"},
		{k: kRead, slot: 2, n: 0},
	}},
	{"G1 closed handle: ErrClosed wins over argument errors (osfs: argument error first)", []op{
		{k: kOpenFile, slot: 0, p: "a", flag: os.O_RDWR | os.O_CREATE | os.O_APPEND, perm: 0o644},
		{k: kClose, slot: 0},
		{k: kReadAt, slot: 0, n: 3, off: -1},
		{k: kWriteAt, slot: 0, data: []byte("x"), off: 2},
		{k: kWriteAt, slot: 0, data: nil, off: -1},
	}},
	{"H1 File.Name() is the path as given (osfs: cleaned, root-relative)", []op{
		{k: kCreate, slot: 0, p: "d/e/../x"},
		{k: kOpen, slot: 1, p: "./d//x"},
	}},
	{"I1 soft errno: rename dir into its own subtree onto an existing entry", []op{
		{k: kCreate, slot: 0, p: "d/e/y"},
		{k: kRename, p: "d", p2: "d/e"},
		{k: kRename, p: "d", p2: "d/e/y"},
	}},
	{"I2 soft errno: rename a file onto its (non-empty) parent directory", []op{
		{k: kCreate, slot: 0, p: "d/e/y"},
		{k: kRename, p: "d/e/y", p2: "d"},
	}},
	{"I3 soft errno: ReadAt on a directory handle: EBADF (osfs: EISDIR)", []op{
		{k: kMkdirAll, p: "d"},
		{k: kOpen, slot: 0, p: "d"},
		{k: kReadAt, slot: 0, n: 4, off: 0},
	}},
	{"J1 sub-filesystem whose base dir was renamed away: failing Rename re-creates base dirs", []op{
		{k: kMkdirAll, p: "d"},
		{k: kChroot, p: "d"},
		{k: kRename, p: "d", p2: "g"},
		{k: kRename, sub: true, p: "n/z", p2: "e/l"},
	}},
	{"K1 Truncate(-1) panics with the disk mutex held (osfs: EINVAL)", []op{
		{k: kCreate, slot: 0, p: "a"},
		{k: kTruncate, slot: 0, off: -1},
	}},
	{"K2 WriteAt(data, -1) panics with the disk mutex held (osfs: error)", []op{
		{k: kCreate, slot: 0, p: "a"},
		{k: kWriteAt, slot: 0, data: []byte("st"), off: -1},
	}},
}

func TestDiffOSFS(t *testing.T) {
	rn := &runner{t: t, tmpBase: t.TempDir(), cov: map[string]int{}}

	type classInfo struct {
		count   int // findings
		seqs    map[string]bool
		soft    bool
		first   string
		example string
	}
	classes := map[string]*classInfo{}
	var order []string
	clean, dirty := 0, 0

	check := func(label string, ops []op) {
		fs := rn.run(ops)
		if len(fs) == 0 {
			clean++
			return
		}
		dirty++
		for _, f := range fs {
			ci := classes[f.class]
			if ci == nil {
				ci = &classInfo{first: label, soft: f.d.soft, seqs: map[string]bool{}}
				classes[f.class] = ci
				order = append(order, f.class)
				// shrink the first occurrence of each class
				cov := rn.cov
				rn.cov = nil
				min := rn.shrink(ops[:f.idx+1], f.class)
				mf := findClass(rn.run(min), f.class)
				rn.cov = cov
				var sb strings.Builder
				for i, o := range min {
					fmt.Fprintf(&sb, "    %2d. %s\n", i+1, o)
				}
				det := f.d.detail
				if mf != nil {
					det = mf.d.detail
				}
				ci.example = fmt.Sprintf("%s op #%d, shrunk to %d ops:\n%s    => %s", label, f.idx+1, len(min), sb.String(), det)
				t.Logf("DISCREPANCY class [%s]%s\n  %s", f.class, softTag(f.d.soft), ci.example)
			} else if ci.count < 3 {
				t.Logf("%s op #%d (%s): [%s] %s", label, f.idx+1, f.op, f.class, f.d.detail)
			}
			ci.count++
			ci.seqs[label] = true
		}
	}

	for _, rp := range repros {
		fs := rn.run(rp.ops)
		var cl []string
		for _, f := range fs {
			cl = append(cl, fmt.Sprintf("op #%d %s: %s", f.idx+1, f.op, f.d.detail))
		}
		if len(fs) == 0 {
			t.Logf("repro %q: NO LONGER REPRODUCES", rp.name)
		} else {
			t.Logf("repro %q: reproduces:\n      %s", rp.name, strings.Join(cl, "\n      "))
		}
		rn.opsTotal, rn.opsDone = 0, 0
	}
	for _, rp := range repros {
		check("repro "+strings.Fields(rp.name)[0], rp.ops)
	}
	var names []string
	for n := range scenarios {
		names = append(names, n)
	}
	sort.Strings(names)
	for _, n := range names {
		check("scenario "+n, scenarios[n])
	}
	for seed := int64(1); seed <= diffSeeds; seed++ {
		check(fmt.Sprintf("seed %d", seed), genSeq(seed, diffOpsPer))
	}
	for seed := int64(diffSeeds + 1); seed <= diffSeeds+diffCleanSeeds; seed++ {
		check(fmt.Sprintf("sanitized seed %d", seed), sanitize(genSeq(seed, diffOpsPer)))
	}

	// coverage: what osfs answered per operation kind
	var covKeys []string
	for k := range rn.cov {
		covKeys = append(covKeys, k)
	}
	sort.Strings(covKeys)
	var cb strings.Builder
	for _, k := range covKeys {
		fmt.Fprintf(&cb, "%s=%d, ", k, rn.cov[k])
	}
	t.Logf("coverage (op, osfs result kind): %s", cb.String())
	t.Logf("executed %d of %d generated ops (the rest followed a state-diverging discrepancy or a root escape)", rn.opsDone, rn.opsTotal)

	hard, soft := 0, 0
	var sb strings.Builder
	for _, c := range order {
		ci := classes[c]
		if ci.soft || acceptedDivergence[c] {
			soft++
		} else {
			hard++
		}
		fmt.Fprintf(&sb, "  %4d findings in %3d sequences: [%s]%s (first: %s)\n", ci.count, len(ci.seqs), c, softTag(ci.soft), ci.first)
	}
	t.Logf("summary: %d scenarios + %d raw and %d sanitized seeds x %d ops: %d sequences clean, %d with at least one discrepancy, %d world runs (incl. shrinking)\n%s",
		len(scenarios), diffSeeds, diffCleanSeeds, diffOpsPer, clean, dirty, rn.nRun, sb.String())
	if hard > 0 {
		t.Errorf("%d distinct discrepancy classes (+%d soft errno-only classes) in %d of %d sequences",
			hard, soft, dirty, clean+dirty)
	}
}

// acceptedDivergence lists discrepancy classes that were examined and left in
// place because both sides fail (only the error kind/precedence differs) or
// the construct is outside what go-git does (see DESIGN.md, simfs fidelity).
var acceptedDivergence = map[string]bool{
	"MkdirAll errkind(osfs=exist,simfs=notexist)":  true, // MkdirAll on a link whose target's parent is missing: both fail
	"MkdirAll errkind(osfs=exist,simfs=notdir)":    true, // both fail
	"WriteAt errkind(osfs=other,simfs=closed)":     true, // error precedence on a closed O_APPEND handle: both fail
	"Rename errkind(osfs=notdir,simfs=notexist)":   true, // missing source AND non-directory destination parent: both fail
	"Rename errkind(osfs=notexist,simfs=notdir)":   true,
	"Rename -> tree differs afterwards":            true, // sub-filesystem whose base directory was renamed away
	"OpenFile errkind(osfs=notexist,simfs=notdir)": true,
	"Remove errkind(osfs=notexist,simfs=notdir)":   true,
	"Symlink errkind(osfs=exist,simfs=notdir)":     true,
}

func softTag(soft bool) string {
	if soft {
		return " (soft: errno only)"
	}
	return ""
}
