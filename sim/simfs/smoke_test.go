package simfs_test

import (
	"testing"
	"time"

	git "github.com/go-git/go-git/v6"
	"github.com/go-git/go-git/v6/plumbing/cache"
	"github.com/go-git/go-git/v6/plumbing/object"
	"github.com/go-git/go-git/v6/storage/filesystem"
	"github.com/go-git/go-git/v6/verifsim/simfs"
	"github.com/go-git/go-billy/v6/util"
)

func TestSmokeGoGit(t *testing.T) {
	d := simfs.NewDisk()
	d.Record = true
	wt := d.FS("/wt", "main")
	dot, _ := wt.Chroot(".git")
	st := filesystem.NewStorage(dot, cache.NewObjectLRUDefault())
	r, err := git.Init(st, git.WithWorkTree(wt))
	if err != nil {
		t.Fatal(err)
	}
	w, _ := r.Worktree()
	util.WriteFile(wt, "a.txt", []byte("hello\n"), 0o644)
	util.WriteFile(wt, "dir/b.txt", []byte("world\n"), 0o644)
	if err := w.AddGlob("."); err != nil {
		t.Fatal(err)
	}
	sig := &object.Signature{Name: "a", Email: "a@b", When: time.Unix(1700000000, 0)}
	h, err := w.Commit("c1", &git.CommitOptions{Author: sig, Committer: sig})
	if err != nil {
		t.Fatal(err)
	}
	t.Log(h, len(d.Log), d.MutCount())
	for _, op := range d.Log {
		t.Log(op.String())
	}
	// reopen on a clone
	d2 := d.Clone()
	wt2 := d2.FS("/wt", "re")
	dot2, _ := wt2.Chroot(".git")
	r2, err := git.Open(filesystem.NewStorage(dot2, cache.NewObjectLRUDefault()), wt2)
	if err != nil {
		t.Fatal(err)
	}
	head, err := r2.Head()
	if err != nil || head.Hash() != h {
		t.Fatal(err, head)
	}
	w2, _ := r2.Worktree()
	s, err := w2.Status()
	if err != nil || !s.IsClean() {
		t.Fatal(err, s)
	}
}
