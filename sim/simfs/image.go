package simfs

import (
	"crypto/sha256"
	"encoding/hex"
	"fmt"
	"io/fs"
	"os"
	"path"
	"path/filepath"
	"sort"
	"strings"
	"time"
	"unicode"
)

// foldNTFS folds a path component the way an NTFS-like disk would look it up:
// case-insensitive, trailing dots and spaces ignored, 8.3 short name GIT~1
// aliasing .git, alternate data stream suffixes ("::$INDEX_ALLOCATION", ":x")
// ignored.
func foldNTFS(name string) string {
	n := strings.ToLower(name)
	if i := strings.IndexByte(n, ':'); i >= 0 {
		n = n[:i]
	}
	n = strings.TrimRight(n, ". ")
	if n == "git~1" {
		n = ".git"
	}
	if n == "" {
		n = strings.ToLower(name)
	}
	return n
}

// hfsIgnorable lists the code points HFS+ ignores in file names.
func hfsIgnorable(r rune) bool {
	switch r {
	case 0x200c, 0x200d, 0x200e, 0x200f, 0x202a, 0x202b, 0x202c, 0x202d, 0x202e,
		0x206a, 0x206b, 0x206c, 0x206d, 0x206e, 0x206f, 0xfeff:
		return true
	}
	return false
}

func foldHFS(name string) string {
	var b strings.Builder
	for _, r := range name {
		if hfsIgnorable(r) {
			continue
		}
		b.WriteRune(unicode.ToLower(r))
	}
	if b.Len() == 0 {
		return name
	}
	return b.String()
}

// Clone returns a deep copy of the disk image (files, dirs, links, mtimes),
// without faults, crash state, log, open handles or locks. Hard links are not
// modelled, so a tree copy is exact.
func (d *Disk) Clone() *Disk {
	d.mu.Lock()
	defer d.mu.Unlock()
	n := NewDisk()
	n.Personality = d.Personality
	n.Tick = d.Tick
	n.now0 = d.now0
	if d.Clock != nil {
		n.now0 = d.Clock()
	}
	n.next = d.next
	n.tmpCounter = d.tmpCounter
	n.TmpSalt = d.TmpSalt
	n.root = cloneNode(d.root)
	return n
}

func cloneNode(n *inode) *inode {
	c := &inode{ino: n.ino, kind: n.kind, target: n.target, mode: n.mode, mtime: n.mtime, nlink: n.nlink}
	if n.data != nil {
		c.data = append([]byte(nil), n.data...)
	}
	if n.children != nil {
		c.children = make(map[string]*dirent, len(n.children))
		for k, de := range n.children {
			c.children[k] = &dirent{name: de.name, node: cloneNode(de.node)}
		}
	}
	return c
}

// Entry is one node of a disk listing.
type Entry struct {
	Path   string
	Kind   string // "file", "dir", "link"
	Mode   fs.FileMode
	Data   []byte
	Target string
	MTime  time.Time
}

// List returns every node under abs (not following symlinks), sorted by path,
// without going through the seams (no park, no faults, no log).
func (d *Disk) List(abs string) []Entry {
	d.mu.Lock()
	defer d.mu.Unlock()
	r := d.walk(path.Clean("/"+abs), false)
	if r.err != nil || r.node == nil {
		return nil
	}
	var out []Entry
	var rec func(p string, n *inode)
	rec = func(p string, n *inode) {
		switch n.kind {
		case kDir:
			if p != r.resolved {
				out = append(out, Entry{Path: p, Kind: "dir", Mode: n.mode, MTime: n.mtime})
			}
			keys := make([]string, 0, len(n.children))
			for k := range n.children {
				keys = append(keys, k)
			}
			sort.Strings(keys)
			for _, k := range keys {
				de := n.children[k]
				pp := p
				if pp == "/" {
					pp = ""
				}
				rec(pp+"/"+de.name, de.node)
			}
		case kLink:
			out = append(out, Entry{Path: p, Kind: "link", Target: n.target, MTime: n.mtime})
		default:
			out = append(out, Entry{Path: p, Kind: "file", Mode: n.mode, Data: n.data, MTime: n.mtime})
		}
	}
	rec(r.resolved, r.node)
	sort.Slice(out, func(i, j int) bool { return out[i].Path < out[j].Path })
	return out
}

// Digest hashes the content under abs (paths, kinds, exec bit, data, targets;
// not mtimes, not directory modes). skip filters out paths.
func (d *Disk) Digest(abs string, skip func(p string) bool) string {
	h := sha256.New()
	for _, e := range d.List(abs) {
		if skip != nil && skip(e.Path) {
			continue
		}
		fmt.Fprintf(h, "%s\x00%s\x00", e.Path, e.Kind)
		switch e.Kind {
		case "file":
			fmt.Fprintf(h, "%v\x00%d\x00", e.Mode&0o100 != 0, len(e.Data))
			h.Write(e.Data)
		case "link":
			fmt.Fprintf(h, "%s\x00", e.Target)
		}
	}
	return hex.EncodeToString(h.Sum(nil))[:16]
}

// ReadFile reads a file directly from the image (following symlinks),
// bypassing seams.
func (d *Disk) ReadFile(abs string) ([]byte, bool) {
	d.mu.Lock()
	defer d.mu.Unlock()
	r := d.walk(path.Clean("/"+abs), true)
	if r.err != nil || r.node == nil || r.node.kind != kFile {
		return nil, false
	}
	return append([]byte(nil), r.node.data...), true
}

// Lookup reports the kind of node at abs without following the final link:
// "", "file", "dir", "link".
func (d *Disk) Lookup(abs string) string {
	d.mu.Lock()
	defer d.mu.Unlock()
	r := d.walk(path.Clean("/"+abs), false)
	if r.err != nil || r.node == nil {
		return ""
	}
	switch r.node.kind {
	case kDir:
		return "dir"
	case kLink:
		return "link"
	}
	return "file"
}

// WriteFile writes a file directly into the image (creating parents),
// bypassing seams. Used by harness setup and by "external writers".
func (d *Disk) WriteFile(abs string, data []byte, mode fs.FileMode) error {
	d.mu.Lock()
	defer d.mu.Unlock()
	abs = path.Clean("/" + abs)
	if _, err := d.mkdirAll(path.Dir(abs), 0o755, -1); err != nil {
		return err
	}
	r := d.walk(abs, true)
	if r.err != nil {
		return r.err
	}
	if r.node != nil {
		if r.node.kind != kFile {
			return fmt.Errorf("simfs: %s is not a file", abs)
		}
		r.node.data = append([]byte(nil), data...)
		r.node.mtime = d.Now()
		r.node.mode = mode & 0o777
		return nil
	}
	n := &inode{ino: d.next, kind: kFile, mode: mode & 0o777, nlink: 1, mtime: d.Now(), data: append([]byte(nil), data...)}
	d.next++
	r.parent.children[d.fold(r.name)] = &dirent{name: r.name, node: n}
	return nil
}

// PlantSymlink creates a symlink directly in the image.
func (d *Disk) PlantSymlink(target, abs string) error {
	d.mu.Lock()
	defer d.mu.Unlock()
	abs = path.Clean("/" + abs)
	if _, err := d.mkdirAll(path.Dir(abs), 0o755, -1); err != nil {
		return err
	}
	r := d.walk(abs, false)
	if r.err != nil {
		return r.err
	}
	if r.node != nil {
		return os.ErrExist
	}
	n := &inode{ino: d.next, kind: kLink, target: target, mode: 0o777, nlink: 1, mtime: d.Now()}
	d.next++
	r.parent.children[d.fold(r.name)] = &dirent{name: r.name, node: n}
	return nil
}

// RemoveAllDirect removes a subtree directly from the image.
func (d *Disk) RemoveAllDirect(abs string) {
	d.mu.Lock()
	defer d.mu.Unlock()
	r := d.walk(path.Clean("/"+abs), false)
	if r.err != nil || r.node == nil || r.parent == nil {
		return
	}
	delete(r.parent.children, d.fold(r.name))
}

// SetMTime sets the mtime of a node directly.
func (d *Disk) SetMTime(abs string, t time.Time) {
	d.mu.Lock()
	defer d.mu.Unlock()
	r := d.walk(path.Clean("/"+abs), false)
	if r.err == nil && r.node != nil {
		r.node.mtime = t
	}
}

// Export writes the subtree at abs into a real directory (for git-as-oracle),
// preserving modes, symlinks and mtimes.
func (d *Disk) Export(abs, dir string) error {
	entries := d.List(abs)
	root := path.Clean("/" + abs)
	type mt struct {
		p string
		t time.Time
	}
	var dirs []mt
	for _, e := range entries {
		rel := strings.TrimPrefix(e.Path, root)
		dst := filepath.Join(dir, filepath.FromSlash(rel))
		switch e.Kind {
		case "dir":
			if err := os.MkdirAll(dst, 0o755); err != nil {
				return err
			}
			dirs = append(dirs, mt{dst, e.MTime})
		case "link":
			if err := os.MkdirAll(filepath.Dir(dst), 0o755); err != nil {
				return err
			}
			if err := os.Symlink(e.Target, dst); err != nil {
				return err
			}
		default:
			if err := os.MkdirAll(filepath.Dir(dst), 0o755); err != nil {
				return err
			}
			m := e.Mode
			if m == 0 {
				m = 0o644
			}
			if err := os.WriteFile(dst, e.Data, m|0o600); err != nil {
				return err
			}
			_ = os.Chtimes(dst, e.MTime, e.MTime)
		}
	}
	for i := len(dirs) - 1; i >= 0; i-- {
		_ = os.Chtimes(dirs[i].p, dirs[i].t, dirs[i].t)
	}
	return nil
}

// Import loads a real directory tree into the image under abs, bypassing seams.
func (d *Disk) Import(dir, abs string) error {
	return filepath.Walk(dir, func(p string, info os.FileInfo, err error) error {
		if err != nil {
			return err
		}
		rel, _ := filepath.Rel(dir, p)
		dst := path.Join("/"+abs, filepath.ToSlash(rel))
		switch {
		case info.Mode()&os.ModeSymlink != 0:
			t, err := os.Readlink(p)
			if err != nil {
				return err
			}
			return d.PlantSymlink(t, dst)
		case info.IsDir():
			d.mu.Lock()
			_, err := d.mkdirAll(dst, 0o755, -1)
			d.mu.Unlock()
			return err
		default:
			b, err := os.ReadFile(p)
			if err != nil {
				return err
			}
			return d.WriteFile(dst, b, info.Mode().Perm())
		}
	})
}
