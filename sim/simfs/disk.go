// Package simfs is a simulated disk: an in-memory POSIX-like filesystem that
// implements billy.Filesystem and is owned by the simulator. Every operation
// is a seam: it can be scheduled (parked at a driver), failed with an injected
// error at a chosen ordinal, torn by a crash, recorded, and checked against a
// footprint predicate.
package simfs

import (
	"errors"
	"fmt"
	"io/fs"
	"os"
	"sort"
	"strings"
	"sync"
	"syscall"
	"time"
)

// ErrCrashed is returned by every operation after the simulated process died.
var ErrCrashed = errors.New("simfs: process crashed")

// ErrInjected wraps all injected I/O faults so oracles can recognise them.
var ErrInjected = errors.New("simfs: injected fault")

type injected struct {
	errno syscall.Errno
	op    string
}

func (e *injected) Error() string { return fmt.Sprintf("simfs: injected %s on %s", e.errno.Error(), e.op) }
func (e *injected) Unwrap() []error {
	return []error{ErrInjected, e.errno}
}

// IsInjected reports whether err (or anything it wraps) is an injected fault
// or a post-crash error.
func IsInjected(err error) bool {
	return errors.Is(err, ErrInjected) || errors.Is(err, ErrCrashed)
}

type kind uint8

const (
	kFile kind = iota
	kDir
	kLink
)

type inode struct {
	ino      int
	kind     kind
	data     []byte
	target   string
	mode     fs.FileMode // permission bits only
	mtime    time.Time
	children map[string]*dirent // key: folded name
	nlink    int
	lockedBy *handle
}

type dirent struct {
	name string
	node *inode
}

// Personality selects name-folding behaviour of the simulated disk.
type Personality int

const (
	Posix Personality = iota
	NTFS
	HFS
)

func (p Personality) String() string {
	switch p {
	case NTFS:
		return "ntfs"
	case HFS:
		return "hfs"
	}
	return "posix"
}

// OpClass groups operations for fault ordinals and scheduling.
type OpClass string

const (
	OpOpen     OpClass = "open"
	OpCreate   OpClass = "create" // OpenFile with O_CREATE or TempFile
	OpRead     OpClass = "read"
	OpWrite    OpClass = "write"
	OpClose    OpClass = "close"
	OpStat     OpClass = "stat"
	OpReadDir  OpClass = "readdir"
	OpRename   OpClass = "rename"
	OpRemove   OpClass = "remove"
	OpMkdir    OpClass = "mkdir"
	OpTruncate OpClass = "truncate"
	OpSymlink  OpClass = "symlink"
	OpReadlink OpClass = "readlink"
	OpChmod    OpClass = "chmod"
	OpLock     OpClass = "lock"
	OpUnlock   OpClass = "unlock"
	OpSeek     OpClass = "seek"
)

// Op is one recorded disk operation.
type Op struct {
	N        int     // global ordinal (1-based)
	Class    OpClass
	Actor    string
	Path     string // resolved absolute path (after symlinks) where applicable
	Path2    string // rename destination
	Detail   string
	Mutating bool
	MutN     int // ordinal among mutating ops (1-based) or 0
	Err      string
	Injected bool
}

func (o Op) String() string {
	s := fmt.Sprintf("%d %s %s %s", o.N, o.Actor, o.Class, o.Path)
	if o.Path2 != "" {
		s += " -> " + o.Path2
	}
	if o.Detail != "" {
		s += " [" + o.Detail + "]"
	}
	if o.Err != "" {
		s += " !" + o.Err
	}
	return s
}

// Fault asks the disk to fail the Nth operation (1-based) of Class whose
// resolved path contains PathSub (empty = any).
type Fault struct {
	Class   OpClass `json:"class"`
	Nth     int     `json:"nth"`
	PathSub string  `json:"path_sub,omitempty"`
	Errno   string  `json:"errno"`           // EIO, ENOSPC, EACCES, EMFILE, ENOENT, SHORT
	Short   int     `json:"short,omitempty"` // for SHORT writes: bytes kept (mod len)
	seen    int
	fired   bool
}

// Crash asks the disk to stop the process at the Kth mutating operation.
type Crash struct {
	AtMut int `json:"at_mut"` // 1-based ordinal among mutating ops; 0 = none
	// Torn selects the variant of the final operation: 0 = operation not
	// applied at all, 1 = fully applied, >=2 = partially applied where that is
	// meaningful (write keeps Torn-2 mod len bytes... see applyTorn).
	Torn int `json:"torn"`
}

// Parker is implemented by the scheduler. Park blocks until the driver grants
// the operation. actor identifies the filesystem view performing it.
type Parker interface {
	Park(actor string, class OpClass, detail string)
	// ParkLock blocks until the flock on an inode can be taken; enabled is
	// evaluated by the driver at quiescence.
	ParkUntil(actor string, class OpClass, detail string, enabled func() bool)
}

// Disk is one simulated disk image plus its monitor.
type Disk struct {
	mu   sync.Mutex
	root *inode
	next int

	Personality Personality
	Clock       func() time.Time
	Tick        time.Duration
	now0        time.Time // manual clock when Clock == nil
	tmpCounter  int
	TmpSalt     string

	Sched Parker
	// SchedClasses, when non-nil, limits parking to these classes.
	SchedClasses map[OpClass]bool

	faults  []*Fault
	crash   Crash
	crashed bool
	opN     int
	mutN    int
	classN  map[OpClass]int

	Record bool
	Log    []Op
	// Footprint, when non-nil, is evaluated on every operation with the
	// resolved path; a non-empty return is recorded as a footprint violation.
	Footprint           func(op *Op) string
	FootprintViolations []string

	FaultsFired map[string]int
	openHandles map[*handle]struct{}
	DoubleClose int
	UseAfterClose int
	LockBlocked int // times a Lock had to wait (sched) or would have deadlocked
}

// NewDisk creates an empty disk with a manual clock starting at a fixed epoch.
func NewDisk() *Disk {
	d := &Disk{
		next:        2,
		Tick:        time.Nanosecond,
		now0:        time.Unix(1_700_000_000, 0).UTC(),
		classN:      map[OpClass]int{},
		FaultsFired: map[string]int{},
		openHandles: map[*handle]struct{}{},
	}
	d.root = &inode{ino: 1, kind: kDir, mode: 0o755, children: map[string]*dirent{}, nlink: 1, mtime: d.now0}
	return d
}

// Now returns the disk's current time truncated to Tick.
func (d *Disk) Now() time.Time {
	var t time.Time
	if d.Clock != nil {
		t = d.Clock()
	} else {
		t = d.now0
	}
	if d.Tick > 1 {
		t = t.Truncate(d.Tick)
	}
	return t
}

// Advance moves the manual clock forward.
func (d *Disk) Advance(by time.Duration) {
	d.mu.Lock()
	d.now0 = d.now0.Add(by)
	d.mu.Unlock()
}

// SetFaults installs a fault plan (copied) and resets its counters.
func (d *Disk) SetFaults(fs []Fault) {
	d.mu.Lock()
	defer d.mu.Unlock()
	d.faults = nil
	for i := range fs {
		f := fs[i]
		f.seen, f.fired = 0, false
		d.faults = append(d.faults, &f)
	}
}

// SetCrash installs a crash point relative to the *current* mutating-op count.
func (d *Disk) SetCrash(c Crash) {
	d.mu.Lock()
	defer d.mu.Unlock()
	d.crash = c
	if c.AtMut > 0 {
		d.crash.AtMut = d.mutN + c.AtMut
	}
}

// Crashed reports whether the crash point was reached.
func (d *Disk) Crashed() bool { d.mu.Lock(); defer d.mu.Unlock(); return d.crashed }

// MutCount returns how many mutating operations happened so far.
func (d *Disk) MutCount() int { d.mu.Lock(); defer d.mu.Unlock(); return d.mutN }

// OpCount returns how many operations happened so far.
func (d *Disk) OpCount() int { d.mu.Lock(); defer d.mu.Unlock(); return d.opN }

// ClassCounts returns a copy of per-class operation counts.
func (d *Disk) ClassCounts() map[OpClass]int {
	d.mu.Lock()
	defer d.mu.Unlock()
	m := make(map[OpClass]int, len(d.classN))
	for k, v := range d.classN {
		m[k] = v
	}
	return m
}

// ResetCounters zeroes the op, mutation and class counters and the log
// (used between the setup phase and the measured operation).
func (d *Disk) ResetCounters() {
	d.mu.Lock()
	defer d.mu.Unlock()
	d.opN, d.mutN = 0, 0
	d.classN = map[OpClass]int{}
	d.Log = nil
	for _, f := range d.faults {
		f.seen, f.fired = 0, false
	}
}

// OpenHandleCount returns the number of handles not yet closed.
func (d *Disk) OpenHandleCount() int { d.mu.Lock(); defer d.mu.Unlock(); return len(d.openHandles) }

// OpenHandleNames lists the names of open handles, sorted.
func (d *Disk) OpenHandleNames() []string {
	d.mu.Lock()
	defer d.mu.Unlock()
	var out []string
	for h := range d.openHandles {
		out = append(out, h.abs)
	}
	sort.Strings(out)
	return out
}

func (d *Disk) fold(name string) string {
	switch d.Personality {
	case NTFS:
		return foldNTFS(name)
	case HFS:
		return foldHFS(name)
	}
	return name
}

// begin is called at the start of every operation, with d.mu NOT held.
// It parks at the scheduler, then (with d.mu held on return) accounts the
// operation, and decides crash/fault. The caller must d.mu.Unlock().
// It returns the op record and an error to return immediately (if any).
// apply==false together with err==nil never happens.
type verdict struct {
	op    *Op
	err   error
	torn  int  // >=0 when this is the crashing mutating op: variant to apply
	crash bool // this op is the crash point; after applying torn variant, freeze
	short int  // >=0: short write bytes to keep, then error
}

func (d *Disk) begin(actor string, class OpClass, path, path2, detail string, mutating bool) verdict {
	if d.Sched != nil && (d.SchedClasses == nil || d.SchedClasses[class]) {
		d.Sched.Park(actor, class, path)
	}
	d.mu.Lock()
	v := verdict{torn: -1, short: -1}
	d.opN++
	d.classN[class]++
	op := &Op{N: d.opN, Class: class, Actor: actor, Path: path, Path2: path2, Detail: detail, Mutating: mutating}
	v.op = op
	if d.crashed {
		v.err = ErrCrashed
		op.Err = "crashed"
		d.finish(op)
		return v
	}
	if d.Footprint != nil {
		if msg := d.Footprint(op); msg != "" {
			d.FootprintViolations = append(d.FootprintViolations, msg)
		}
	}
	for _, f := range d.faults {
		if f.fired || f.Class != class {
			continue
		}
		if f.PathSub != "" && !strings.Contains(path, f.PathSub) && !strings.Contains(path2, f.PathSub) {
			continue
		}
		f.seen++
		if f.seen == f.Nth {
			f.fired = true
			d.FaultsFired[string(class)+":"+f.Errno]++
			op.Injected = true
			if f.Errno == "SHORT" && class == OpWrite {
				v.short = f.Short
				// the short write still mutates
				break
			}
			v.err = &injected{errno: errnoOf(f.Errno), op: string(class) + " " + path}
			op.Err = f.Errno
			d.finish(op)
			return v
		}
	}
	if mutating {
		d.mutN++
		op.MutN = d.mutN
		if d.crash.AtMut > 0 && d.mutN == d.crash.AtMut {
			v.crash = true
			v.torn = d.crash.Torn
		}
	}
	return v
}

// finish records the op. d.mu held.
func (d *Disk) finish(op *Op) {
	if d.Record {
		d.Log = append(d.Log, *op)
	}
}

// end completes an operation: record, freeze on crash. d.mu held; unlocks.
func (d *Disk) end(v verdict, err error) {
	if err != nil && v.op.Err == "" {
		v.op.Err = shortErr(err)
	}
	if v.crash {
		d.crashed = true
		v.op.Detail += " CRASH torn=" + fmt.Sprint(v.torn)
	}
	d.finish(v.op)
	d.mu.Unlock()
}

func shortErr(err error) string {
	switch {
	case errors.Is(err, os.ErrNotExist):
		return "ENOENT"
	case errors.Is(err, os.ErrExist):
		return "EEXIST"
	case errors.Is(err, ErrCrashed):
		return "crashed"
	}
	s := err.Error()
	if len(s) > 40 {
		s = s[:40]
	}
	return s
}

func errnoOf(s string) syscall.Errno {
	switch s {
	case "EIO":
		return syscall.EIO
	case "ENOSPC", "SHORT":
		return syscall.ENOSPC
	case "EACCES":
		return syscall.EACCES
	case "EMFILE":
		return syscall.EMFILE
	case "ENOENT":
		return syscall.ENOENT
	case "EINTR":
		return syscall.EINTR
	}
	return syscall.EIO
}
