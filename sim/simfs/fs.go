package simfs

import (
	"errors"
	"fmt"
	"io"
	"io/fs"
	"os"
	"path"
	"runtime/debug"
	"sort"
	"strings"
	"syscall"
	"time"

	"github.com/go-git/go-billy/v6"
)

// FS is a billy.Filesystem view of a Disk rooted at base, acting as actor.
type FS struct {
	d     *Disk
	base  string // absolute, clean, no trailing slash except "/"
	actor string
	// Bound makes symlink resolution that leaves base fail, like osfs.BoundOS.
	Bound bool
}

var (
	_ billy.Filesystem = (*FS)(nil)
	_ billy.Chmod      = (*FS)(nil)
	_ billy.Capable    = (*FS)(nil)
)

// ErrPathEscapes mirrors osfs.ErrPathEscapesParent for Bound views.
var ErrPathEscapes = errors.New("path escapes from parent")

// FS returns a view of the disk rooted at base for the named actor.
func (d *Disk) FS(base, actor string) *FS {
	return &FS{d: d, base: path.Clean("/" + base), actor: actor}
}

// As returns the same view for another actor.
func (f *FS) As(actor string) *FS { c := *f; c.actor = actor; return &c }

// Disk returns the underlying disk.
func (f *FS) Disk() *Disk { return f.d }

func (f *FS) Capabilities() billy.Capability { return billy.DefaultCapabilities }

func (f *FS) Root() string { return f.base }

func (f *FS) Join(elem ...string) string { return path.Join(elem...) }

func (f *FS) Chroot(p string) (billy.Filesystem, error) {
	// like osfs.BoundOS: nothing is created; an existing non-directory is refused
	abs := f.abs(p)
	f.d.mu.Lock()
	r := f.d.walk(abs, true)
	f.d.mu.Unlock()
	if r.err == nil && r.node != nil && r.node.kind != kDir {
		return nil, &os.PathError{Op: "open", Path: p, Err: syscall.ENOTDIR}
	}
	c := *f
	c.base = abs
	return &c, nil
}

// abs maps a caller path to an absolute disk path (not yet symlink-resolved).
func (f *FS) abs(name string) string {
	name = strings.ReplaceAll(name, "\\", "/")
	if f.d.Personality != NTFS {
		// on posix a backslash is an ordinary character
		name = strings.ReplaceAll(name, "/", "/")
	}
	return absUnder(f.base, name)
}

func absUnder(base, name string) string {
	if strings.HasPrefix(name, "/") {
		if base == "/" {
			return path.Clean(name)
		}
		if name == base || strings.HasPrefix(name, base+"/") {
			return path.Clean(name)
		}
	}
	rel := path.Clean("/" + name) // clamps .. at the view root
	if base == "/" {
		return rel
	}
	if rel == "/" {
		return base
	}
	return base + rel
}

type walkResult struct {
	parent   *inode
	name     string // final component as given (or stored name if exists)
	node     *inode // nil if final component missing
	resolved string // absolute path after following links
	err      error
}

const maxLinks = 40

// walk resolves abs. d.mu held.
func (d *Disk) walk(abs string, followFinal bool) walkResult {
	type frame struct {
		n    *inode
		name string
	}
	stack := []frame{{d.root, ""}}
	parts := splitPath(abs)
	links := 0
	pathOf := func(st []frame) string {
		if len(st) == 1 {
			return "/"
		}
		var b strings.Builder
		for _, f := range st[1:] {
			b.WriteByte('/')
			b.WriteString(f.name)
		}
		return b.String()
	}
	for i := 0; i < len(parts); i++ {
		p := parts[i]
		cur := stack[len(stack)-1].n
		if p == "." || p == "" {
			continue
		}
		if p == ".." {
			if len(stack) > 1 {
				stack = stack[:len(stack)-1]
			}
			continue
		}
		if cur.kind != kDir {
			return walkResult{err: &os.PathError{Op: "walk", Path: abs, Err: syscall.ENOTDIR}}
		}
		final := i == len(parts)-1
		de := cur.children[d.fold(p)]
		if de == nil {
			if final {
				pp := pathOf(stack)
				if pp == "/" {
					pp = ""
				}
				return walkResult{parent: cur, name: p, resolved: pp + "/" + p}
			}
			return walkResult{err: &os.PathError{Op: "walk", Path: abs, Err: syscall.ENOENT}}
		}
		if de.node.kind == kLink && (!final || followFinal) {
			links++
			if links > maxLinks {
				return walkResult{err: &os.PathError{Op: "walk", Path: abs, Err: syscall.ELOOP}}
			}
			t := de.node.target
			if d.Personality == NTFS {
				t = strings.ReplaceAll(t, "\\", "/")
			}
			rest := parts[i+1:]
			tp := splitPath(t)
			if strings.HasPrefix(t, "/") {
				stack = stack[:1]
			}
			np := make([]string, 0, len(tp)+len(rest))
			np = append(np, tp...)
			np = append(np, rest...)
			parts = np
			i = -1
			continue
		}
		stack = append(stack, frame{de.node, de.name})
	}
	top := stack[len(stack)-1]
	var parent *inode
	if len(stack) > 1 {
		parent = stack[len(stack)-2].n
	}
	return walkResult{parent: parent, name: top.name, node: top.n, resolved: pathOf(stack)}
}

func splitPath(p string) []string {
	var out []string
	for _, s := range strings.Split(p, "/") {
		if s != "" {
			out = append(out, s)
		}
	}
	return out
}

func (f *FS) checkBound(resolved string) error {
	if !f.Bound || f.base == "/" {
		return nil
	}
	if resolved == f.base || strings.HasPrefix(resolved, f.base+"/") {
		return nil
	}
	return fmt.Errorf("%w: %q", ErrPathEscapes, resolved)
}

// mkdirAll creates abs and parents. limit>=0 creates at most limit new
// components (torn mkdir). A component that exists as a dangling symlink or
// (final component) as a non-directory yields EEXIST, like os.Root.MkdirAll.
// d.mu held.
func (d *Disk) mkdirAll(abs string, perm fs.FileMode, limit int) (int, error) {
	parts := splitPath(abs)
	created := 0
	for i := 1; i <= len(parts); i++ {
		sub := "/" + strings.Join(parts[:i], "/")
		r := d.walk(sub, true)
		if r.err != nil {
			return created, r.err
		}
		if r.node != nil {
			if r.node.kind != kDir {
				if i == len(parts) {
					return created, &os.PathError{Op: "mkdir", Path: sub, Err: syscall.EEXIST}
				}
				return created, &os.PathError{Op: "mkdir", Path: sub, Err: syscall.ENOTDIR}
			}
			continue
		}
		// missing after following links: a dangling link as the FINAL component
		// is EEXIST; as an intermediate component os.Root.MkdirAll follows it
		// and creates the target.
		if i == len(parts) {
			if l := d.walk(sub, false); l.err == nil && l.node != nil {
				return created, &os.PathError{Op: "mkdir", Path: sub, Err: syscall.EEXIST}
			}
		}
		if limit >= 0 && created >= limit {
			return created, nil
		}
		n := &inode{ino: d.next, kind: kDir, mode: perm & 0o777, children: map[string]*dirent{}, nlink: 1, mtime: d.Now()}
		d.next++
		r.parent.children[d.fold(r.name)] = &dirent{name: r.name, node: n}
		r.parent.mtime = d.Now()
		created++
	}
	return created, nil
}

// mkParents creates the parent directories of abs the way osfs.createDir
// does: an EEXIST from MkdirAll is ignored (the operation that follows then
// fails by itself).
func (d *Disk) mkParents(abs string) error {
	_, err := d.mkdirAll(path.Dir(abs), 0o755, -1)
	if err != nil && errors.Is(err, os.ErrExist) {
		return nil
	}
	return err
}

func pathErr(op, p string, errno syscall.Errno) error {
	return &os.PathError{Op: op, Path: p, Err: errno}
}

func (f *FS) Create(filename string) (billy.File, error) {
	return f.OpenFile(filename, os.O_RDWR|os.O_CREATE|os.O_TRUNC, 0o666)
}

func (f *FS) Open(filename string) (billy.File, error) {
	return f.OpenFile(filename, os.O_RDONLY, 0)
}

func (f *FS) OpenFile(filename string, flag int, perm fs.FileMode) (billy.File, error) {
	abs := f.abs(filename)
	d := f.d
	create := flag&os.O_CREATE != 0
	trunc := flag&os.O_TRUNC != 0
	excl := flag&os.O_EXCL != 0
	class := OpOpen
	if create {
		class = OpCreate
	}
	// pre-resolve for recording (cheap, under lock)
	d.mu.Lock()
	r0 := d.walk(abs, !(create && excl))
	res := abs
	if r0.err == nil {
		res = r0.resolved
	}
	willMutate := r0.err == nil && ((r0.node == nil && create) || (r0.node != nil && trunc && len(r0.node.data) > 0)) || (r0.err != nil && create)
	d.mu.Unlock()

	v := d.begin(f.actor, class, res, "", flagString(flag), willMutate)
	if v.err != nil {
		d.mu.Unlock()
		return nil, v.err
	}
	if v.crash && v.torn == 0 {
		d.end(v, ErrCrashed)
		return nil, ErrCrashed
	}
	var err error
	if create {
		// osfs creates missing parent directories
		if err = d.mkParents(abs); err != nil {
			d.end(v, err)
			return nil, err
		}
	}
	r := d.walk(abs, !(create && excl))
	if r.err != nil {
		d.end(v, r.err)
		return nil, r.err
	}
	if err = f.checkBound(r.resolved); err != nil {
		d.end(v, err)
		return nil, err
	}
	v.op.Path = r.resolved
	node := r.node
	if node == nil {
		if !create {
			err = pathErr("open", filename, syscall.ENOENT)
			d.end(v, err)
			return nil, err
		}
		if r.parent == nil || r.parent.kind != kDir {
			err = pathErr("open", filename, syscall.ENOTDIR)
			d.end(v, err)
			return nil, err
		}
		node = &inode{ino: d.next, kind: kFile, mode: perm & 0o777 &^ 0o022, nlink: 1, mtime: d.Now()}
		d.next++
		r.parent.children[d.fold(r.name)] = &dirent{name: r.name, node: node}
		r.parent.mtime = d.Now()
	} else {
		if create && excl {
			err = pathErr("open", filename, syscall.EEXIST)
			d.end(v, err)
			return nil, err
		}
		if node.kind == kDir {
			if flag&(os.O_WRONLY|os.O_RDWR) != 0 || create || trunc {
				err = pathErr("open", filename, syscall.EISDIR)
				d.end(v, err)
				return nil, err
			}
		}
		if node.kind == kLink { // O_EXCL|O_CREATE on a link is EEXIST above; plain lstat-open not supported
			err = pathErr("open", filename, syscall.ELOOP)
			d.end(v, err)
			return nil, err
		}
		if trunc && node.kind == kFile {
			node.data = nil
			node.mtime = d.Now()
		}
	}
	h := &handle{fs: f, node: node, name: f.displayName(filename, abs), abs: r.resolved, flag: flag}
	d.openHandles[h] = struct{}{}
	d.end(v, nil)
	if v.crash {
		return nil, ErrCrashed
	}
	return h, nil
}

// displayName mirrors osfs: the cleaned path relative to the view root.
func (f *FS) displayName(given, abs string) string {
	if f.base == "/" {
		return path.Clean(given)
	}
	if abs == f.base {
		return "."
	}
	return strings.TrimPrefix(abs, f.base+"/")
}

func flagString(flag int) string {
	var s []string
	switch flag & (os.O_RDONLY | os.O_WRONLY | os.O_RDWR) {
	case os.O_RDONLY:
		s = append(s, "RD")
	case os.O_WRONLY:
		s = append(s, "WR")
	case os.O_RDWR:
		s = append(s, "RW")
	}
	if flag&os.O_CREATE != 0 {
		s = append(s, "CREAT")
	}
	if flag&os.O_EXCL != 0 {
		s = append(s, "EXCL")
	}
	if flag&os.O_TRUNC != 0 {
		s = append(s, "TRUNC")
	}
	if flag&os.O_APPEND != 0 {
		s = append(s, "APPEND")
	}
	return strings.Join(s, "|")
}

func (f *FS) stat(filename string, follow bool) (fs.FileInfo, error) {
	abs := f.abs(filename)
	d := f.d
	d.mu.Lock()
	r0 := d.walk(abs, follow)
	res := abs
	if r0.err == nil {
		res = r0.resolved
	}
	d.mu.Unlock()
	det := "stat"
	if !follow {
		det = "lstat"
	}
	v := d.begin(f.actor, OpStat, res, "", det, false)
	if v.err != nil {
		d.mu.Unlock()
		return nil, v.err
	}
	r := d.walk(abs, follow)
	if r.err != nil {
		d.end(v, r.err)
		return nil, r.err
	}
	if r.node == nil {
		err := pathErr(det, filename, syscall.ENOENT)
		d.end(v, err)
		return nil, err
	}
	if err := f.checkBound(r.resolved); err != nil {
		d.end(v, err)
		return nil, err
	}
	fi := infoOf(path.Base(abs), r.node)
	if abs == f.base {
		fi.name = path.Base(f.base)
	}
	d.end(v, nil)
	return fi, nil
}

func (f *FS) Stat(filename string) (fs.FileInfo, error)  { return f.stat(filename, true) }
func (f *FS) Lstat(filename string) (fs.FileInfo, error) { return f.stat(filename, false) }

type fileInfo struct {
	name  string
	size  int64
	mode  fs.FileMode
	mtime time.Time
	ino   int
}

func (fi *fileInfo) Name() string       { return fi.name }
func (fi *fileInfo) Size() int64        { return fi.size }
func (fi *fileInfo) Mode() fs.FileMode  { return fi.mode }
func (fi *fileInfo) ModTime() time.Time { return fi.mtime }
func (fi *fileInfo) IsDir() bool        { return fi.mode.IsDir() }
func (fi *fileInfo) Sys() any           { return nil }

func infoOf(name string, n *inode) *fileInfo {
	fi := &fileInfo{name: name, mtime: n.mtime, ino: n.ino}
	switch n.kind {
	case kDir:
		fi.mode = n.mode | fs.ModeDir
	case kLink:
		fi.mode = 0o777 | fs.ModeSymlink
		fi.size = int64(len(n.target))
	default:
		fi.mode = n.mode
		fi.size = int64(len(n.data))
	}
	return fi
}

func (f *FS) Rename(from, to string) error {
	d := f.d
	af, at := f.abs(from), f.abs(to)
	d.mu.Lock()
	rf, rt := d.walk(af, false), d.walk(at, false)
	resF, resT := af, at
	if rf.err == nil {
		resF = rf.resolved
	}
	if rt.err == nil {
		resT = rt.resolved
	}
	d.mu.Unlock()
	v := d.begin(f.actor, OpRename, resF, resT, "", true)
	if v.err != nil {
		d.mu.Unlock()
		return v.err
	}
	if v.crash && v.torn == 0 {
		d.end(v, ErrCrashed)
		return ErrCrashed
	}
	if af == f.base {
		d.end(v, billy.ErrBaseDirCannotBeRenamed)
		return billy.ErrBaseDirCannotBeRenamed
	}
	if err := d.mkParents(at); err != nil {
		d.end(v, err)
		return err
	}
	rf = d.walk(af, false)
	if rf.err != nil {
		d.end(v, rf.err)
		return rf.err
	}
	if rf.node == nil {
		err := &os.LinkError{Op: "rename", Old: from, New: to, Err: syscall.ENOENT}
		d.end(v, err)
		return err
	}
	rt = d.walk(at, false)
	if rt.err != nil {
		d.end(v, rt.err)
		return rt.err
	}
	if err := f.checkBound(rf.resolved); err != nil {
		d.end(v, err)
		return err
	}
	if err := f.checkBound(rt.resolved); err != nil {
		d.end(v, err)
		return err
	}
	if rt.node != nil {
		if rt.node == rf.node {
			d.end(v, nil)
			return nil
		}
		if rt.node.kind == kDir {
			if rf.node.kind != kDir {
				err := &os.LinkError{Op: "rename", Old: from, New: to, Err: syscall.EISDIR}
				d.end(v, err)
				return err
			}
			if len(rt.node.children) > 0 {
				err := &os.LinkError{Op: "rename", Old: from, New: to, Err: syscall.ENOTEMPTY}
				d.end(v, err)
				return err
			}
		} else if rf.node.kind == kDir {
			err := &os.LinkError{Op: "rename", Old: from, New: to, Err: syscall.ENOTDIR}
			d.end(v, err)
			return err
		}
		rt.node.nlink--
	}
	if rf.node.kind == kDir && (rt.resolved == rf.resolved || strings.HasPrefix(rt.resolved, rf.resolved+"/")) {
		err := &os.LinkError{Op: "rename", Old: from, New: to, Err: syscall.EINVAL}
		d.end(v, err)
		return err
	}
	delete(rf.parent.children, d.fold(rf.name))
	name := rt.name
	if rt.node != nil {
		name = path.Base(at)
	}
	rt.parent.children[d.fold(name)] = &dirent{name: name, node: rf.node}
	now := d.Now()
	rf.parent.mtime, rt.parent.mtime = now, now
	d.end(v, nil)
	if v.crash {
		return ErrCrashed
	}
	return nil
}

func (f *FS) Remove(filename string) error {
	d := f.d
	abs := f.abs(filename)
	d.mu.Lock()
	r0 := d.walk(abs, false)
	res := abs
	if r0.err == nil {
		res = r0.resolved
	}
	d.mu.Unlock()
	v := d.begin(f.actor, OpRemove, res, "", "", true)
	if v.err != nil {
		d.mu.Unlock()
		return v.err
	}
	if v.crash && v.torn == 0 {
		d.end(v, ErrCrashed)
		return ErrCrashed
	}
	if abs == f.base {
		d.end(v, billy.ErrBaseDirCannotBeRemoved)
		return billy.ErrBaseDirCannotBeRemoved
	}
	r := d.walk(abs, false)
	if r.err != nil {
		d.end(v, r.err)
		return r.err
	}
	if r.node == nil {
		err := pathErr("remove", filename, syscall.ENOENT)
		d.end(v, err)
		return err
	}
	if err := f.checkBound(r.resolved); err != nil {
		d.end(v, err)
		return err
	}
	if r.node.kind == kDir && len(r.node.children) > 0 {
		err := pathErr("remove", filename, syscall.ENOTEMPTY)
		d.end(v, err)
		return err
	}
	delete(r.parent.children, d.fold(r.name))
	r.node.nlink--
	r.parent.mtime = d.Now()
	d.end(v, nil)
	if v.crash {
		return ErrCrashed
	}
	return nil
}

func (f *FS) MkdirAll(filename string, perm fs.FileMode) error {
	d := f.d
	abs := f.abs(filename)
	d.mu.Lock()
	r0 := d.walk(abs, true)
	mut := r0.err != nil || r0.node == nil
	d.mu.Unlock()
	v := d.begin(f.actor, OpMkdir, abs, "", "", mut)
	if v.err != nil {
		d.mu.Unlock()
		return v.err
	}
	limit := -1
	if v.crash {
		switch {
		case v.torn == 0:
			d.end(v, ErrCrashed)
			return ErrCrashed
		case v.torn >= 2:
			limit = v.torn - 2
		}
	}
	_, err := d.mkdirAll(abs, perm, limit)
	d.end(v, err)
	if v.crash {
		return ErrCrashed
	}
	return err
}

func (f *FS) ReadDir(p string) ([]fs.DirEntry, error) {
	d := f.d
	abs := f.abs(p)
	d.mu.Lock()
	r0 := d.walk(abs, true)
	res := abs
	if r0.err == nil {
		res = r0.resolved
	}
	d.mu.Unlock()
	v := d.begin(f.actor, OpReadDir, res, "", "", false)
	if v.err != nil {
		d.mu.Unlock()
		return nil, v.err
	}
	r := d.walk(abs, true)
	if r.err != nil {
		d.end(v, r.err)
		return nil, r.err
	}
	if r.node == nil {
		err := pathErr("open", p, syscall.ENOENT)
		d.end(v, err)
		return nil, err
	}
	if err := f.checkBound(r.resolved); err != nil {
		d.end(v, err)
		return nil, err
	}
	if r.node.kind != kDir {
		err := pathErr("readdirent", p, syscall.ENOTDIR)
		d.end(v, err)
		return nil, err
	}
	out := make([]fs.DirEntry, 0, len(r.node.children))
	for _, de := range r.node.children {
		out = append(out, fs.FileInfoToDirEntry(infoOf(de.name, de.node)))
	}
	sort.Slice(out, func(i, j int) bool { return out[i].Name() < out[j].Name() })
	d.end(v, nil)
	return out, nil
}

func (f *FS) Symlink(target, link string) error {
	d := f.d
	abs := f.abs(link)
	v := d.begin(f.actor, OpSymlink, abs, "", target, true)
	if v.err != nil {
		d.mu.Unlock()
		return v.err
	}
	if v.crash && v.torn == 0 {
		d.end(v, ErrCrashed)
		return ErrCrashed
	}
	if err := d.mkParents(abs); err != nil {
		d.end(v, err)
		return err
	}
	r := d.walk(abs, false)
	if r.err != nil {
		d.end(v, r.err)
		return r.err
	}
	if err := f.checkBound(r.resolved); err != nil {
		d.end(v, err)
		return err
	}
	v.op.Path = r.resolved
	if r.node != nil {
		err := &os.LinkError{Op: "symlink", Old: target, New: link, Err: syscall.EEXIST}
		d.end(v, err)
		return err
	}
	n := &inode{ino: d.next, kind: kLink, target: target, mode: 0o777, nlink: 1, mtime: d.Now()}
	d.next++
	r.parent.children[d.fold(r.name)] = &dirent{name: r.name, node: n}
	r.parent.mtime = d.Now()
	d.end(v, nil)
	if v.crash {
		return ErrCrashed
	}
	return nil
}

func (f *FS) Readlink(link string) (string, error) {
	d := f.d
	abs := f.abs(link)
	v := d.begin(f.actor, OpReadlink, abs, "", "", false)
	if v.err != nil {
		d.mu.Unlock()
		return "", v.err
	}
	r := d.walk(abs, false)
	if r.err != nil {
		d.end(v, r.err)
		return "", r.err
	}
	if r.node == nil {
		err := pathErr("readlink", link, syscall.ENOENT)
		d.end(v, err)
		return "", err
	}
	v.op.Path = r.resolved
	if r.node.kind != kLink {
		err := pathErr("readlink", link, syscall.EINVAL)
		d.end(v, err)
		return "", err
	}
	t := r.node.target
	d.end(v, nil)
	return t, nil
}

func (f *FS) Chmod(name string, mode fs.FileMode) error {
	d := f.d
	abs := f.abs(name)
	d.mu.Lock()
	r0 := d.walk(abs, true)
	res := abs
	if r0.err == nil {
		res = r0.resolved
	}
	d.mu.Unlock()
	v := d.begin(f.actor, OpChmod, res, "", mode.String(), true)
	if v.err != nil {
		d.mu.Unlock()
		return v.err
	}
	if v.crash && v.torn == 0 {
		d.end(v, ErrCrashed)
		return ErrCrashed
	}
	r := d.walk(abs, true)
	if r.err != nil {
		d.end(v, r.err)
		return r.err
	}
	if r.node == nil {
		err := pathErr("chmod", name, syscall.ENOENT)
		d.end(v, err)
		return err
	}
	if err := f.checkBound(r.resolved); err != nil {
		d.end(v, err)
		return err
	}
	r.node.mode = mode & 0o777
	d.end(v, nil)
	if v.crash {
		return ErrCrashed
	}
	return nil
}

func (f *FS) TempFile(dir, prefix string) (billy.File, error) {
	d := f.d
	if dir == "" {
		dir = ".tmp"
	}
	for {
		d.mu.Lock()
		d.tmpCounter++
		name := fmt.Sprintf("%s%s%07d", prefix, d.TmpSalt, d.tmpCounter)
		d.mu.Unlock()
		h, err := f.OpenFile(path.Join(dir, name), os.O_RDWR|os.O_CREATE|os.O_EXCL, 0o600)
		if err != nil && errors.Is(err, os.ErrExist) && !IsInjected(err) {
			continue
		}
		return h, err
	}
}

// handle is an open file description.
type handle struct {
	fs     *FS
	node   *inode
	name   string
	abs    string
	flag   int
	pos    int64
	closed bool
	locked bool
	// closedAt is the stack of the Close call (only with DebugUseAfterClose)
	closedAt string
}

var (
	_ billy.File   = (*handle)(nil)
	_ billy.Locker = (*handle)(nil)
)

func (h *handle) Name() string { return h.name }

func (h *handle) canRead() bool  { return h.flag&os.O_WRONLY == 0 }
func (h *handle) canWrite() bool { return h.flag&(os.O_WRONLY|os.O_RDWR) != 0 }

// DebugUseAfterClose, when set, is called with the stack of the Close and of
// the later use of a closed handle (debugging aid).
var DebugUseAfterClose func(name, closedAt, usedAt string)

func (h *handle) closedErr(v verdict, op string) error {
	d := h.fs.d
	d.UseAfterClose++
	if DebugUseAfterClose != nil {
		DebugUseAfterClose(h.name, h.closedAt, string(debug.Stack()))
	}
	err := &os.PathError{Op: op, Path: h.name, Err: os.ErrClosed}
	d.end(v, err)
	return err
}

func (h *handle) Read(b []byte) (int, error) {
	d := h.fs.d
	v := d.begin(h.fs.actor, OpRead, h.abs, "", fmt.Sprintf("@%d+%d", h.pos, len(b)), false)
	if v.err != nil {
		d.mu.Unlock()
		return 0, v.err
	}
	if h.closed {
		return 0, h.closedErr(v, "read")
	}
	if len(b) == 0 {
		d.end(v, nil)
		return 0, nil
	}
	if !h.canRead() || h.node.kind != kFile {
		err := pathErr("read", h.name, syscall.EBADF)
		if h.node.kind == kDir {
			err = pathErr("read", h.name, syscall.EISDIR)
		}
		d.end(v, err)
		return 0, err
	}
	if h.pos >= int64(len(h.node.data)) {
		d.end(v, nil)
		return 0, io.EOF
	}
	n := copy(b, h.node.data[h.pos:])
	h.pos += int64(n)
	d.end(v, nil)
	return n, nil
}

func (h *handle) ReadAt(b []byte, off int64) (int, error) {
	d := h.fs.d
	v := d.begin(h.fs.actor, OpRead, h.abs, "", fmt.Sprintf("at%d+%d", off, len(b)), false)
	if v.err != nil {
		d.mu.Unlock()
		return 0, v.err
	}
	if off < 0 {
		err := pathErr("readat", h.name, syscall.EINVAL)
		d.end(v, err)
		return 0, err
	}
	if len(b) == 0 {
		d.end(v, nil)
		return 0, nil
	}
	if h.closed {
		return 0, h.closedErr(v, "readat")
	}
	if !h.canRead() || h.node.kind != kFile {
		err := pathErr("read", h.name, syscall.EBADF)
		d.end(v, err)
		return 0, err
	}
	if off < 0 {
		err := pathErr("readat", h.name, syscall.EINVAL)
		d.end(v, err)
		return 0, err
	}
	if off >= int64(len(h.node.data)) {
		d.end(v, nil)
		return 0, io.EOF
	}
	n := copy(b, h.node.data[off:])
	d.end(v, nil)
	if n < len(b) {
		return n, io.EOF
	}
	return n, nil
}

func (h *handle) writeAt(v verdict, p []byte, off int64) (int, error) {
	d := h.fs.d
	keep := len(p)
	var ferr error
	if v.short >= 0 {
		keep = 0
		if len(p) > 0 {
			keep = v.short % len(p)
		}
		ferr = &injected{errno: syscall.ENOSPC, op: "write " + h.abs}
		v.op.Err = "SHORT"
	}
	if v.crash {
		switch {
		case v.torn == 0:
			keep = 0
		case v.torn >= 2 && len(p) > 0:
			keep = (v.torn - 2) % len(p)
		}
		ferr = ErrCrashed
	}
	if keep > 0 {
		end := off + int64(keep)
		if end > int64(len(h.node.data)) {
			nd := make([]byte, end)
			copy(nd, h.node.data)
			h.node.data = nd
		}
		copy(h.node.data[off:], p[:keep])
		h.node.mtime = d.Now()
	} else if len(p) == 0 {
		// zero-length write: no change
	}
	return keep, ferr
}

func (h *handle) Write(p []byte) (int, error) {
	d := h.fs.d
	v := d.begin(h.fs.actor, OpWrite, h.abs, "", fmt.Sprintf("@%d+%d", h.pos, len(p)), true)
	if v.err != nil {
		d.mu.Unlock()
		return 0, v.err
	}
	if h.closed {
		return 0, h.closedErr(v, "write")
	}
	if !h.canWrite() {
		err := pathErr("write", h.name, syscall.EBADF)
		d.end(v, err)
		return 0, err
	}
	if h.flag&os.O_APPEND != 0 {
		h.pos = int64(len(h.node.data))
	}
	n, err := h.writeAt(v, p, h.pos)
	h.pos += int64(n)
	d.end(v, err)
	return n, err
}

func (h *handle) WriteAt(p []byte, off int64) (int, error) {
	d := h.fs.d
	v := d.begin(h.fs.actor, OpWrite, h.abs, "", fmt.Sprintf("at%d+%d", off, len(p)), true)
	if v.err != nil {
		d.mu.Unlock()
		return 0, v.err
	}
	if off < 0 {
		err := pathErr("writeat", h.name, syscall.EINVAL)
		d.end(v, err)
		return 0, err
	}
	if len(p) == 0 {
		d.end(v, nil)
		return 0, nil
	}
	if h.closed {
		return 0, h.closedErr(v, "writeat")
	}
	if !h.canWrite() {
		err := pathErr("write", h.name, syscall.EBADF)
		d.end(v, err)
		return 0, err
	}
	if h.flag&os.O_APPEND != 0 {
		err := errors.New("os: invalid use of WriteAt on file opened with O_APPEND")
		d.end(v, err)
		return 0, err
	}
	n, err := h.writeAt(v, p, off)
	d.end(v, err)
	return n, err
}

func (h *handle) Seek(offset int64, whence int) (int64, error) {
	d := h.fs.d
	// Seek is not a scheduling point and cannot fail by injection.
	d.mu.Lock()
	defer d.mu.Unlock()
	if d.crashed {
		return 0, ErrCrashed
	}
	if h.closed {
		d.UseAfterClose++
		return 0, &os.PathError{Op: "seek", Path: h.name, Err: os.ErrClosed}
	}
	var np int64
	switch whence {
	case io.SeekStart:
		np = offset
	case io.SeekCurrent:
		np = h.pos + offset
	case io.SeekEnd:
		np = int64(len(h.node.data)) + offset
	default:
		return 0, pathErr("seek", h.name, syscall.EINVAL)
	}
	if np < 0 {
		return 0, pathErr("seek", h.name, syscall.EINVAL)
	}
	h.pos = np
	return np, nil
}

func (h *handle) Truncate(size int64) error {
	d := h.fs.d
	v := d.begin(h.fs.actor, OpTruncate, h.abs, "", fmt.Sprint(size), true)
	if v.err != nil {
		d.mu.Unlock()
		return v.err
	}
	if h.closed {
		return h.closedErr(v, "truncate")
	}
	if v.crash && v.torn == 0 {
		d.end(v, ErrCrashed)
		return ErrCrashed
	}
	if !h.canWrite() || size < 0 {
		err := pathErr("truncate", h.name, syscall.EINVAL)
		d.end(v, err)
		return err
	}
	if size < int64(len(h.node.data)) {
		h.node.data = h.node.data[:size:size]
	} else if size > int64(len(h.node.data)) {
		nd := make([]byte, size)
		copy(nd, h.node.data)
		h.node.data = nd
	}
	h.node.mtime = d.Now()
	d.end(v, nil)
	if v.crash {
		return ErrCrashed
	}
	return nil
}

func (h *handle) Stat() (fs.FileInfo, error) {
	d := h.fs.d
	v := d.begin(h.fs.actor, OpStat, h.abs, "", "fstat", false)
	if v.err != nil {
		d.mu.Unlock()
		return nil, v.err
	}
	if h.closed {
		return nil, h.closedErr(v, "stat")
	}
	fi := infoOf(path.Base(h.name), h.node)
	d.end(v, nil)
	return fi, nil
}

func (h *handle) Close() error {
	d := h.fs.d
	v := d.begin(h.fs.actor, OpClose, h.abs, "", "", false)
	// Close always releases the descriptor, even when an error is injected or
	// the process crashed (the kernel closes descriptors of a dead process).
	if h.closed {
		d.DoubleClose++
		err := &os.PathError{Op: "close", Path: h.name, Err: os.ErrClosed}
		if v.err == nil {
			d.end(v, err)
		} else {
			d.mu.Unlock()
		}
		return err
	}
	h.closed = true
	if DebugUseAfterClose != nil {
		h.closedAt = string(debug.Stack())
	}
	delete(d.openHandles, h)
	if h.node.lockedBy == h {
		h.node.lockedBy = nil
	}
	h.locked = false
	if v.err != nil {
		d.mu.Unlock()
		return v.err
	}
	d.end(v, nil)
	return nil
}

// Lock takes an exclusive flock-style lock on the open file description.
func (h *handle) Lock() error {
	d := h.fs.d
	if d.Sched != nil {
		d.mu.Lock()
		if !d.crashed && h.node.lockedBy != nil && h.node.lockedBy != h {
			d.LockBlocked++ // held by another task right now: this Lock has to wait
		}
		d.mu.Unlock()
		d.Sched.ParkUntil(h.fs.actor, OpLock, h.abs, func() bool {
			d.mu.Lock()
			defer d.mu.Unlock()
			return d.crashed || h.node.lockedBy == nil || h.node.lockedBy == h
		})
	}
	d.mu.Lock()
	defer d.mu.Unlock()
	d.opN++
	d.classN[OpLock]++
	op := Op{N: d.opN, Class: OpLock, Actor: h.fs.actor, Path: h.abs}
	if d.crashed {
		return ErrCrashed
	}
	if h.closed {
		d.UseAfterClose++
		return &os.PathError{Op: "lock", Path: h.name, Err: os.ErrClosed}
	}
	if h.node.lockedBy != nil && h.node.lockedBy != h {
		// Without a scheduler the caller would block forever (single task):
		// report it as a would-deadlock error rather than hanging.
		d.LockBlocked++
		op.Err = "EDEADLK"
		d.finish(&op)
		return pathErr("flock", h.name, syscall.EDEADLK)
	}
	h.node.lockedBy = h
	h.locked = true
	d.finish(&op)
	return nil
}

func (h *handle) Unlock() error {
	d := h.fs.d
	d.mu.Lock()
	defer d.mu.Unlock()
	d.opN++
	d.classN[OpUnlock]++
	if d.crashed {
		return ErrCrashed
	}
	if h.node.lockedBy == h {
		h.node.lockedBy = nil
	}
	h.locked = false
	if d.Record {
		d.Log = append(d.Log, Op{N: d.opN, Class: OpUnlock, Actor: h.fs.actor, Path: h.abs})
	}
	return nil
}
