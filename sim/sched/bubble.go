package sched

import (
	"fmt"
	"os"
	"runtime"
	"testing"
	"testing/synctest"
	"time"
)

// WatchdogSeconds is the real-time limit for one bubble. A bubble that does
// not finish (a goroutine spinning or blocked on an unhooked mutex held by a
// parked goroutine) is harness trouble: stacks are dumped and the process
// exits with status 2, never a VIOLATION.
var WatchdogSeconds = 120

// DumpOnPanic prints all goroutine stacks when a bubble panics (debugging aid).
var DumpOnPanic bool

// Bubble runs f inside a synctest bubble and returns the panic value, if
// any, that escaped it (including synctest's end-of-bubble deadlock panic).
func Bubble(t *testing.T, f func()) (panicked any) {
	wd := time.AfterFunc(time.Duration(WatchdogSeconds)*time.Second, func() {
		buf := make([]byte, 1<<20)
		n := runtime.Stack(buf, true)
		fmt.Fprintf(os.Stderr, "HARNESS-TROUBLE: bubble exceeded %ds real time\n%s\n", WatchdogSeconds, buf[:n])
		os.Exit(2)
	})
	defer wd.Stop()
	defer func() {
		if p := recover(); p != nil {
			panicked = p
			if DumpOnPanic {
				buf := make([]byte, 1<<20)
				n := runtime.Stack(buf, true)
				fmt.Fprintf(os.Stderr, "BUBBLE PANIC: %v\n%s\n", p, buf[:n])
			}
		}
	}()
	synctest.Test(t, func(t *testing.T) { f() })
	return nil
}
