// Package sched is the seeded scheduler: a discrete-event driver that runs
// inside a testing/synctest bubble. Every seam operation (disk op, stream
// op, hooked lock) parks its goroutine at the driver; at quiescence
// (synctest.Wait) the driver picks exactly one enabled request using the
// plan's schedule and grants it. The fake clock of the bubble is the only
// clock; the driver advances it explicitly or when nothing is enabled.
package sched

import (
	"bytes"
	"fmt"
	"hash/fnv"
	"runtime"
	"sort"
	"strconv"
	"sync"
	"testing/synctest"
	"time"

	"github.com/go-git/go-git/v6/verifsim/simfs"
)

// Preempt forces a scheduling decision at a given step.
type Preempt struct {
	At   int `json:"at"`   // step number (0-based)
	Pick int `json:"pick"` // index into the sorted enabled set, modulo its size
}

// Schedule is the part of a plan that decides every interleaving.
type Schedule struct {
	// Uniform, when non-empty, picks enabled[Uniform[i] % n] at step i.
	Uniform []int `json:"uniform,omitempty"`
	// Preempts apply at steps >= len(Uniform). Between preemptions the
	// driver keeps running the task it ran last while that task is enabled,
	// otherwise the enabled request with the lowest key.
	Preempts []Preempt `json:"preempts,omitempty"`
	// Fallback picks when the last task is not enabled (modulo; empty = 0).
	Fallback []int `json:"fallback,omitempty"`
	// TimeSteps: at step TimeSteps[i].At advance the clock by Ms before choosing.
	TimeSteps []TimeStep `json:"time_steps,omitempty"`
}

type TimeStep struct {
	At int `json:"at"`
	Ms int `json:"ms"`
}

type request struct {
	task    string
	class   string
	detail  string
	seq     int
	enabled func() bool
	grant   chan bool // true = proceed, false = abort
	anon    bool
}

func (r *request) key() string { return r.task + "\x00" + r.class + "\x00" + r.detail }

// Task is one simulated client / thread.
type Task struct {
	Name string
	Fn   func()
}

type abortRun struct{}

// Driver serialises all seam events of one run.
type Driver struct {
	mu      sync.Mutex
	pending []*request
	wake    chan struct{}
	names   map[int64]string // goroutine id -> task name
	live    int
	seq     int

	Sched    Schedule
	MaxSteps int
	MaxIdle  time.Duration

	Steps     int
	Switches  int
	lastTask  string
	fbI       int
	logHash   hashWriter
	schedHash hashWriter
	Trace     []string
	TraceCap  int
	start     time.Time

	Aborted   string // non-empty: why the run was cut (step-budget, deadlock)
	aborting  bool
	TaskPanic map[string]any
	// OnStep, when set, is called by the driver at every quiescent step
	// before choosing (invariant checks). It must not block.
	OnStep func(step int)
}

type hashWriter struct{ h uint64 }

func (w *hashWriter) add(s string) {
	f := fnv.New64a()
	var b [8]byte
	for i := 0; i < 8; i++ {
		b[i] = byte(w.h >> (8 * i))
	}
	f.Write(b[:])
	f.Write([]byte(s))
	w.h = f.Sum64()
}
func (w *hashWriter) String() string { return strconv.FormatUint(w.h, 16) }

// New creates a driver. Must be used inside a synctest bubble.
func New(s Schedule) *Driver {
	return &Driver{Sched: s, MaxSteps: 20000, MaxIdle: 120 * time.Second, wake: make(chan struct{}, 1),
		names: map[int64]string{}, TraceCap: 4000, TaskPanic: map[string]any{}}
}

func goid() int64 {
	var buf [64]byte
	n := runtime.Stack(buf[:], false)
	// "goroutine 123 ["
	b := buf[:n]
	b = b[len("goroutine "):]
	i := bytes.IndexByte(b, ' ')
	id, _ := strconv.ParseInt(string(b[:i]), 10, 64)
	return id
}

func (d *Driver) taskName(actor string, class, detail string) (string, bool) {
	d.mu.Lock()
	n, ok := d.names[goid()]
	d.mu.Unlock()
	if ok {
		return n, false
	}
	return "~" + actor, true
}

// Park implements simfs.Parker.
func (d *Driver) Park(actor string, class simfs.OpClass, detail string) {
	d.ParkUntil(actor, class, detail, nil)
}

// ParkUntil implements simfs.Parker.
func (d *Driver) ParkUntil(actor string, class simfs.OpClass, detail string, enabled func() bool) {
	if !InBubble() {
		// A goroutine that does not belong to any bubble (leaked by an
		// earlier, unscheduled run and only now getting CPU time) reached a
		// global hook: it is not part of this simulation.
		return
	}
	name, anon := d.taskName(actor, string(class), detail)
	r := &request{task: name, class: string(class), detail: detail, enabled: enabled, grant: make(chan bool, 1), anon: anon}
	d.mu.Lock()
	if d.aborting {
		d.mu.Unlock()
		if anon {
			return // a goroutine go-git started itself: let it run on unscheduled
		}
		panic(abortRun{})
	}
	d.seq++
	r.seq = d.seq
	d.pending = append(d.pending, r)
	d.mu.Unlock()
	select {
	case d.wake <- struct{}{}:
	default:
	}
	if ok := <-r.grant; !ok {
		if anon {
			return
		}
		panic(abortRun{})
	}
}

// InBubble reports whether the calling goroutine runs inside a synctest
// bubble: the bubble's fake clock starts at 2000-01-01, the real clock is
// decades later.
func InBubble() bool { return time.Now().Year() < 2015 }

// Yield is a pure scheduling point for harness code.
func (d *Driver) Yield(site string) { d.ParkUntil("", "yield", site, nil) }

// Now returns simulated time since the run started.
func (d *Driver) Now() time.Duration { return time.Since(d.start) }

// Logf adds a harness event to the event log (does not affect scheduling).
func (d *Driver) Logf(format string, args ...any) {
	s := fmt.Sprintf(format, args...)
	d.mu.Lock()
	d.logHash.add(s)
	if len(d.Trace) < d.TraceCap {
		d.Trace = append(d.Trace, s)
	}
	d.mu.Unlock()
}

// LogHash returns the hash of the event log so far.
func (d *Driver) LogHash() string { return d.logHash.String() }

// SchedHash returns the hash of the grant sequence (task, class) so far.
func (d *Driver) SchedHash() string { return d.schedHash.String() }

// Step returns the current global event sequence number.
func (d *Driver) Step() int { d.mu.Lock(); defer d.mu.Unlock(); return d.Steps }

// Run starts the tasks and drives them to completion. It must be called from
// the root goroutine of a synctest bubble.
func (d *Driver) Run(tasks []Task) {
	d.start = time.Now()
	sort.Slice(tasks, func(i, j int) bool { return tasks[i].Name < tasks[j].Name })
	for _, tk := range tasks {
		tk := tk
		d.mu.Lock()
		d.live++
		d.mu.Unlock()
		go func() {
			d.mu.Lock()
			d.names[goid()] = tk.Name
			d.mu.Unlock()
			defer func() {
				if p := recover(); p != nil {
					if _, ok := p.(abortRun); !ok {
						d.mu.Lock()
						d.TaskPanic[tk.Name] = fmt.Sprintf("%v\n%s", p, stack())
						d.mu.Unlock()
					}
				}
				d.mu.Lock()
				d.live--
				d.mu.Unlock()
				select {
				case d.wake <- struct{}{}:
				default:
				}
			}()
			d.ParkUntil("", "start", "", nil)
			tk.Fn()
		}()
	}
	tsI := 0
	for {
		synctest.Wait()
		d.mu.Lock()
		if d.live == 0 && len(d.pending) == 0 {
			// Every task is done. Goroutines that go-git started on its own
			// (grace-period timers, helpers) and that reach a hook from now on
			// must not park for a grant nobody will give: they run on unscheduled.
			d.aborting = true
			d.mu.Unlock()
			return
		}
		if d.OnStep != nil {
			d.mu.Unlock()
			d.OnStep(d.Steps)
			d.mu.Lock()
		}
		// explicit clock advance events
		for tsI < len(d.Sched.TimeSteps) && d.Sched.TimeSteps[tsI].At <= d.Steps {
			ms := d.Sched.TimeSteps[tsI].Ms
			tsI++
			if ms > 0 {
				d.mu.Unlock()
				if ms > 3600_000 {
					ms = 3600_000
				}
				time.Sleep(time.Duration(ms) * time.Millisecond)
				synctest.Wait()
				d.mu.Lock()
				d.logHash.add("advance " + strconv.Itoa(ms))
				if len(d.Trace) < d.TraceCap {
					d.Trace = append(d.Trace, fmt.Sprintf("-- clock +%dms", ms))
				}
			}
		}
		if d.live == 0 && len(d.pending) == 0 {
			// Every task is done. Goroutines that go-git started on its own
			// (grace-period timers, helpers) and that reach a hook from now on
			// must not park for a grant nobody will give: they run on unscheduled.
			d.aborting = true
			d.mu.Unlock()
			return
		}
		// canonical order: never arrival order
		sort.SliceStable(d.pending, func(i, j int) bool {
			a, b := d.pending[i], d.pending[j]
			if a.key() != b.key() {
				return a.key() < b.key()
			}
			return a.seq < b.seq
		})
		pend := append([]*request(nil), d.pending...)
		d.mu.Unlock()
		var en []*request
		for _, r := range pend {
			if r.enabled == nil || r.enabled() {
				en = append(en, r)
			}
		}
		if len(en) == 0 {
			if d.aborting {
				// aborted and whatever is left is blocked outside any seam
				return
			}
			// Nothing can run: wait (durably) for a timer-driven wake-up.
			select {
			case <-d.wake:
				continue
			case <-time.After(d.MaxIdle):
				d.abort("deadlock")
				continue
			}
		}
		if d.Steps >= d.MaxSteps {
			d.abort("step-budget")
			continue
		}
		// choose
		var pick *request
		step := d.Steps
		switch {
		case step < len(d.Sched.Uniform):
			pick = en[mod(d.Sched.Uniform[step], len(en))]
		default:
			forced := false
			for _, p := range d.Sched.Preempts {
				if p.At == step {
					pick = en[mod(p.Pick, len(en))]
					forced = true
					break
				}
			}
			if !forced {
				for _, r := range en {
					if r.task == d.lastTask {
						pick = r
						break
					}
				}
				if pick == nil {
					k := 0
					if d.fbI < len(d.Sched.Fallback) {
						k = d.Sched.Fallback[d.fbI]
					}
					d.fbI++
					pick = en[mod(k, len(en))]
				}
			}
		}
		d.mu.Lock()
		for i, r := range d.pending {
			if r == pick {
				d.pending = append(d.pending[:i], d.pending[i+1:]...)
				break
			}
		}
		d.Steps++
		if pick.task != d.lastTask && d.lastTask != "" {
			d.Switches++
		}
		d.lastTask = pick.task
		line := fmt.Sprintf("%d %s %s %s", step, pick.task, pick.class, pick.detail)
		d.logHash.add(line)
		d.schedHash.add(pick.task + " " + pick.class)
		if len(d.Trace) < d.TraceCap {
			d.Trace = append(d.Trace, line)
		}
		d.mu.Unlock()
		select {
		case <-d.wake:
		default:
		}
		pick.grant <- true
	}
}

func (d *Driver) abort(why string) {
	d.mu.Lock()
	if d.Aborted == "" {
		d.Aborted = why
	}
	d.aborting = true
	p := d.pending
	d.pending = nil
	d.mu.Unlock()
	for _, r := range p {
		r.grant <- false
	}
}

func mod(a, n int) int {
	if n <= 0 {
		return 0
	}
	a %= n
	if a < 0 {
		a += n
	}
	return a
}

func stack() string {
	buf := make([]byte, 4096)
	n := runtime.Stack(buf, false)
	return string(buf[:n])
}
